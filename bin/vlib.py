# Shared driver code for bin/check, bin/replay and bin/selftest (python3, standard library only).
#
# Pipeline per check (DESIGN §6): build from the working tree -> fan out seeded runs over worker
# processes -> determinism gate -> minimise each violation class -> fresh-process replay ->
# known-findings filter -> evidence -> exit code.
import fcntl, glob, json, os, re, shutil, signal, subprocess, sys, time

VERIF = os.path.dirname(os.path.dirname(os.path.abspath(__file__)))
REPO = os.environ.get("VERIF_REPO", "/repo")
BUILD = os.environ.get("VERIF_BUILD", os.path.join(VERIF, "build"))
NWORKERS = int(os.environ.get("VERIF_WORKERS", "14"))

# ---------------------------------------------------------------------------------------------
# Stage table: property -> list of stages.  A stage runs one engine binary in one build flavour
# on cases generated for `prop`; quick/thorough give the number of runs.
# ---------------------------------------------------------------------------------------------
def S(engine, flavour, quick, thorough, prop=None, **kw):
    d = dict(engine=engine, flavour=flavour, quick=quick, thorough=thorough, prop=prop)
    d.update(kw)
    return d

STAGES = {
    "C01": [S("e_seq", "asu", 40000, 400000)],
    "C02": [S("e_seq", "asu", 120000, 800000)],
    "C05": [S("e_seq", "asu", 40000, 400000), S("e_tbb", "asu", 10000, 100000)],
    "C06": [S("e_seq", "asu", 40000, 400000)],
    "C09": [S("e_seq", "asu", 40000, 400000), S("e_tbb", "asu", 15000, 150000)],
    "C15": [S("e_seq", "asu", 40000, 400000)],
    # isolate: call histories (several entry-point calls in one run) meet state that survives a call - every run in its own forked process
    "C03": [S("e_tbb", "asu", 18000, 300000, isolate=True), S("e_tbb", "tsan", 5000, 80000, gate=False)],
    # isolate: every history runs in its own forked process (the knob keeps state in a function-local static)
    "C20": [S("e_knobreal", "asu", 3000, 30000, isolate=True), S("e_tbb", "asu", 10000, 120000, isolate=True), S("e_demo_mcb", "asu", 5000, 50000, isolate=True), S("e_demo_approx", "asu", 5000, 50000, isolate=True)],
    "C07": [S("e_seq", "asu", 4000, 40000, leakcheck=True), S("e_comp", "asu", 4000, 40000, leakcheck=True), S("e_tbb", "asu", 2000, 25000, leakcheck=True),
            S("e_mpi", "asu", 2000, 20000, leakcheck=True), S("e_tbb", "tsan", 1000, 20000, gate=False), S("e_mpi", "tsan", 800, 10000, gate=False),
            S("e_demo_mcb", "asu", 600, 15000, leakcheck=True), S("e_demo_approx", "asu", 600, 15000, leakcheck=True), S("e_demo_stats", "asu", 400, 8000, leakcheck=True), S("e_demo_mpi", "asu", 600, 15000, leakcheck=True),
            S("e_seq", "plain", 0, 3000, wrapper="valgrind", gate=False), S("e_comp", "plain", 0, 3000, wrapper="valgrind", gate=False),
            S("e_tbb", "plain", 0, 1500, wrapper="valgrind", gate=False), S("e_mpi", "plain", 0, 600, wrapper="valgrind", gate=False)],
    "C11": [S("e_demo_mcb", "asu", 10000, 80000), S("e_demo_approx", "asu", 10000, 80000), S("e_demo_stats", "asu", 4000, 30000), S("e_demo_mpi", "asu", 10000, 80000)],
    "C04": [S("e_mpi", "asu", 20000, 200000), S("e_mpi", "tsan", 4000, 40000, gate=False)],
    "C10": [S("e_comp", "asu", 60000, 600000, crash_counts=True)],
    "C12": [S("e_comp", "asu", 30000, 150000, crash_counts=True)],
    "C13": [S("e_comp", "asu", 60000, 600000, crash_counts=True)],
    "C14": [S("e_comp", "asu", 24000, 100000, crash_counts=True)],
    "C16": [S("e_comp", "asu", 50000, 400000, crash_counts=True)],
    "C17": [S("e_comp", "asu", 50000, 600000, crash_counts=True)],
    "C18": [S("e_comp", "asu", 60000, 600000, crash_counts=True)],
    "C08": [S("e_mpi", "asu", 8000, 80000), S("e_mpi", "plain", 0, 400, tier_arg="big", gate=False)],
}

# classes that belong to C07 whatever workload found them
SANITIZER_PREFIXES = ("asan:", "ubsan:", "lsan:", "tsan:", "signal:", "abort", "crash:", "valgrind:")

RACE_PROPS = ("C03", "C04")     # properties whose statement includes the no-data-race clause
RULES = {}
REAL_STUB = {
    "real": ["every header under /repo/include/parmcb (compiled from the working tree)", "Boost.Graph / Boost.Serialization / Boost.Heap / libstdc++", "glibc stdio"],
    "stub": ["TBB runtime (sim/include/tbb: seeded bisection / steals / interleaving)", "Boost.MPI runtime and process boundary (sim/include/boost/mpi)",
             "address order of edge-list nodes (replaced operator new, seeded arena)", "byte source behind FILE* (fopencookie, seeded chunking)", "process exit of demo mains"],
}

def log(*a):
    print(*a, file=sys.stderr, flush=True)

def harness_error(msg):
    print("HARNESS-ERROR: " + msg, flush=True)
    sys.exit(2)

# ---------------------------------------------------------------------------------------------
def build(targets):
    os.makedirs(BUILD, exist_ok=True)
    lock = open(os.path.join(BUILD, ".lock"), "w")
    fcntl.flock(lock, fcntl.LOCK_EX)
    try:
        t0 = time.time()
        cmd = ["make", "-C", VERIF, "-j16", "REPO=" + REPO, "B=" + os.path.relpath(BUILD, VERIF)] + targets
        p = subprocess.run(cmd, stdout=subprocess.PIPE, stderr=subprocess.STDOUT, text=True)
        if p.returncode != 0:
            sys.stdout.write(p.stdout[-6000:])
            harness_error("build failed (the working tree does not compile with the harness): make " + " ".join(targets))
        return time.time() - t0
    finally:
        fcntl.flock(lock, fcntl.LOCK_UN)
        lock.close()

def binary(stage):
    return os.path.join(BUILD, stage["flavour"], stage["engine"])

def target(stage):
    return os.path.join(os.path.relpath(BUILD, VERIF), stage["flavour"], stage["engine"])

SAN_ENV = {
    "ASAN_OPTIONS": "exitcode=77:detect_leaks=1:detect_stack_use_after_return=1:abort_on_error=0:allocator_may_return_null=1:malloc_context_size=12",
    "UBSAN_OPTIONS": "print_stacktrace=1:halt_on_error=1:exitcode=77",
    "LSAN_OPTIONS": "exitcode=79",
    "TSAN_OPTIONS": "exitcode=66:halt_on_error=1:second_deadlock_stack=1:history_size=4:report_signal_unsafe=0",
}

def stage_env(stage):
    env = dict(os.environ); env.update(SAN_ENV)
    if stage.get("leakcheck"): env["SIM_LEAKCHECK"] = "1"       # leak check after every run, attributed to that run
    else: env["ASAN_OPTIONS"] = env["ASAN_OPTIONS"].replace("detect_leaks=1", "detect_leaks=0")
    return env

def ubsan_kind(msg):
    # class name = the leading words of the message up to the first token that carries a number or an
    # address (those vary from run to run): "addition of unsigned offset to 0x6030.. overflowed" -> addition_of_unsigned_offset_to
    words = []
    for w in re.split(r"[^A-Za-z0-9]+", msg):
        if not w: continue
        if re.search(r"[0-9]", w): break
        words.append(w)
        if len(words) >= 6: break
    return "_".join(words) or "error"

def classify_log(text, rc):
    m = re.search(r"ERROR: AddressSanitizer: ([A-Za-z0-9_-]+)", text)
    if m: return "asan:" + m.group(1)
    if "ERROR: LeakSanitizer" in text: return "lsan:leak"
    if "ThreadSanitizer: data race" in text: return "tsan:race"
    m = re.search(r"ThreadSanitizer: (SEGV|BUS|FPE|ILL|ABRT)", text)
    if m: return "signal:" + m.group(1)
    m = re.search(r"ThreadSanitizer: ([A-Za-z0-9_ -]+)", text)
    if m: return "tsan:" + m.group(1).strip().replace(" ", "_")
    m = re.search(r"runtime error: ([^\n]{0,80})", text)
    if m: return "ubsan:" + ubsan_kind(m.group(1))
    m = re.search(r"==\d+== (Invalid (?:read|write|free)|Conditional jump or move depends on uninitialised|Use of uninitialised value|Mismatched free|Source and destination overlap)", text)
    if m: return "valgrind:" + re.sub(r"[^A-Za-z0-9]+", "_", m.group(1))[:40]
    if "HANG" in text or rc == 78: return "hang"
    if rc is not None and rc < 0: return "signal:%d" % (-rc)
    if "terminate called" in text or "Assertion" in text: return "abort"
    return "crash:exit%s" % rc

class Worker:
    def __init__(self, stage, prop, tier, seed, wid, start, to, stride, rundir, wall):
        self.stage, self.prop, self.tier, self.seed = stage, prop, tier, seed
        self.wid, self.start, self.to, self.stride, self.rundir, self.wall = wid, start, to, stride, rundir, wall
        self.out = os.path.join(rundir, "w%s.out" % wid)
        self.err = os.path.join(rundir, "w%s.err" % wid)
        self.segments = 0
        self.proc = None
        self.crashes = []          # (class, inflight json)
        self.launch(start)

    def launch(self, frm):
        self.segments += 1
        cmd = [binary(self.stage), "--prop", self.prop, "--tier", self.stage.get("tier_arg") or self.tier, "--seed", str(self.seed), "--from", str(frm), "--to", str(self.to),
               "--stride", str(self.stride), "--dir", self.rundir, "--id", str(self.wid), "--wall", str(self.wall), "--timeout", "60" if self.tier == "quick" else "300"]
        if self.stage.get("leakcheck"): cmd.append("--leakcheck")
        if self.stage.get("isolate"): cmd.append("--isolate")
        if self.stage.get("wrapper") == "valgrind":
            cmd = ["valgrind", "-q", "--error-exitcode=99", "--exit-on-first-error=yes", "--num-callers=20", "--max-threads=8000"] + cmd + ["--timeout", "900"]
        env = stage_env(self.stage)
        self.fo = open(self.out, "ab"); self.fe = open(self.err, "ab")
        self.err_start = self.fe.tell()
        self.proc = subprocess.Popen(cmd, stdout=self.fo, stderr=self.fe, env=env, cwd=VERIF)

    def poll(self):
        """returns True when this worker is completely done"""
        rc = self.proc.poll()
        if rc is None: return False
        self.fo.close(); self.fe.close()
        if rc == 0: return True
        # died: classify, keep the in-flight case, restart behind it
        with open(self.err, "rb") as f:
            f.seek(self.err_start); text = f.read().decode("utf-8", "replace")
        cls = classify_log(text, rc)
        inflight = os.path.join(self.rundir, "inflight-%s.json" % self.wid)
        try:
            inf = json.load(open(inflight))
        except Exception:
            harness_error("worker %s of %s died (%s) without an in-flight case; stderr tail: %s" % (self.wid, self.stage["engine"], cls, text[-1500:]))
        keep = os.path.join(self.rundir, "crash-%s-%d.json" % (self.wid, inf["i"]))
        rep = {"engine": self.stage["engine"], "flavour": self.stage["flavour"], "seed": self.seed, "run_index": inf["i"], "case": inf["case"], "classes": [cls], "log_tail": text[-3000:]}
        json.dump(rep, open(keep, "w"))
        self.crashes.append((cls, keep, inf["i"], text[-3000:]))
        if len(self.crashes) > 20 or len([c for c in self.crashes if c[0] == "hang"]) >= 2:
            return True     # something is thoroughly broken; enough material
        nxt = inf["i"] + self.stride
        if nxt >= self.to: return True
        self.launch(nxt)
        return False

def run_stage(stage, prop, tier, seed, rundir, nworkers=None):
    """fan out; returns (results list, crash list, wall seconds)"""
    n = stage[tier]
    sprop = stage["prop"] or prop
    if n <= 0: return [], [], 0.0, 0, []
    k = nworkers or stage.get("nworkers") or NWORKERS
    k = max(1, min(k, n))
    wall = float(os.environ.get("VERIF_WALL", "150" if tier == "quick" else "1500"))
    t0 = time.time()
    sdir = os.path.join(rundir, "%s-%s" % (stage["engine"], stage["flavour"]))
    os.makedirs(sdir, exist_ok=True)
    workers = [Worker(stage, sprop, tier, seed, w, w, n, k, sdir, wall) for w in range(k)]
    gate = Worker(stage, sprop, tier, seed, "g", 0, n, 41, sdir, wall * 0.5) if stage.get("gate", True) else None
    allw = workers + ([gate] if gate else [])
    pending = list(allw)
    hard = t0 + wall * 2 + 120
    while pending:
        pending = [w for w in pending if not w.poll()]
        if time.time() > hard:
            for w in pending:
                w.proc.kill(); w.proc.wait()
                try: w.fo.close(); w.fe.close()
                except Exception: pass
            if not any(w.crashes for w in workers):
                harness_error("stage %s exceeded its hard time limit" % stage["engine"])
            break
        time.sleep(0.05)
    results, crashes, gate_res = [], [], {}
    for w in allw:
        with open(w.out, "rb") as f:
            for line in f:
                if not line.startswith(b"R "): continue
                try: j = json.loads(line[2:])
                except Exception: continue
                if w is gate: gate_res[j["i"]] = j
                else: results.append(j)
        if w is not gate: crashes += w.crashes
    # determinism gate: same index in another process must give the same case and the same event log
    byi = {j["i"]: j for j in results}
    mism = []
    for i, g in gate_res.items():
        p = byi.get(i)
        if p is None: continue
        nl = lambda cl: [c for c in cl if c != "lsan:leak"]
        if p["case_hash"] != g["case_hash"] or p["event_hash"] != g["event_hash"] or nl(p["classes"]) != nl(g["classes"]):
            mism.append((i, p["event_hash"], g["event_hash"]))
    for j in results:
        j["_stage"] = stage
    return results, crashes, time.time() - t0, len([i for i in gate_res if i in byi]), mism

# ---------------------------------------------------------------------------------------------
def load_known():
    path = os.path.join(VERIF, "known_findings.json")
    if not os.path.exists(path): return []
    return json.load(open(path)).get("findings", [])

def match_known(prop, cls, res, known):
    for k in known:
        if k.get("status") != "open": continue
        if k["property"] != prop: continue
        if cls not in k["classes"]: continue
        if "entry_re" in k and not re.search(k["entry_re"], res.get("entry", "") or ""): continue
        if "domain" in k and k["domain"] != (res.get("detail", {}) or {}).get("domain", res.get("domain", "")): continue
        if "engine" in k and k["engine"] != res["_stage"]["engine"]: continue
        return k
    return None

def run_tool(stage, args, timeout=900):
    env = stage_env(stage)
    p = subprocess.run([binary(stage)] + args, stdout=subprocess.PIPE, stderr=subprocess.PIPE, env=env, cwd=VERIF, timeout=timeout)
    return p.returncode, p.stdout.decode("utf-8", "replace"), p.stderr.decode("utf-8", "replace")

def replay_once(stage, path):
    """fresh process; returns (classes, event_hash)"""
    rc, out, err = run_tool(stage, ["--replay", path])
    m = re.search(r"^R (\{.*\})$", out, re.M)
    if rc == 0 and m:
        j = json.loads(m.group(1))
        return j["classes"], j["event_hash"], j
    return [classify_log(err, rc)], "dead", {"log_tail": err[-2000:]}

class Unattributed(Exception):
    pass

def minimise_and_confirm(prop, cls, stage, viol_file, replay_dir, prev_file=None, sibling_isolated=False):
    os.makedirs(replay_dir, exist_ok=True)
    tmp = os.path.join(os.path.dirname(viol_file), "min-%s-%s.json" % (prop, re.sub(r"[^A-Za-z0-9]+", "_", cls)))
    rc, out, err = run_tool(stage, ["--minimise", viol_file, "--class", cls, "--out", tmp, "--budget", os.environ.get("VERIF_MIN_BUDGET", "400")], timeout=1800)
    if (rc != 0 or not os.path.exists(tmp)) and cls == "lsan:leak" and prev_file and os.path.exists(prev_file):
        # LeakSanitizer may notice a block one run late (a stale pointer kept it reachable): try the run before
        rc, out, err = run_tool(stage, ["--minimise", prev_file, "--class", cls, "--out", tmp, "--budget", os.environ.get("VERIF_MIN_BUDGET", "400")], timeout=1800)
    if (rc != 0 or not os.path.exists(tmp)) and cls.startswith(SANITIZER_PREFIXES):
        # a leak that needs the history of earlier runs in the same worker process (e.g. a function-local
        # static of the library that survives from run to run) cannot be shown by a single-run replay; a crash
        # caused by undefined behaviour (reading freed memory) need not repeat with the same symptom either
        raise Unattributed("%s flagged by %s/%s but not reproducible from a single run" % (cls, stage["engine"], stage["flavour"]))
    if (rc != 0 or not os.path.exists(tmp)) and sibling_isolated and not stage.get("isolate"):
        # this stage runs many cases per worker process while a sibling stage of the same engine runs every case in a
        # process of its own: a verdict that depends on what the worker process ran before (state of the library that
        # survives a call: statics, thread_local storage of pool threads) is decided by the isolated stage, whose
        # call histories are part of the case
        raise Unattributed("%s flagged by %s/%s (many cases per process) but not reproducible from a single run; the isolated stage decides" % (cls, stage["engine"], stage["flavour"]))
    if rc != 0 or not os.path.exists(tmp):
        # the violation did not reproduce in a child process: nondeterminism in the harness, never a report
        harness_error("violation %s of %s did not reproduce during minimisation (rc=%s): %s %s" % (cls, prop, rc, out[-500:], err[-1500:]))
    rep = json.load(open(tmp))
    rep["property"] = prop; rep["flavour"] = stage["flavour"]; rep["engine_binary"] = stage["engine"]
    h = rep.get("event_hash", "0")[:12]
    final = os.path.join(replay_dir, "%s-%s-%s-%s.json" % (prop, re.sub(r"[^A-Za-z0-9]+", "_", cls), stage["engine"][2:], h))
    json.dump(rep, open(final, "w"), indent=1)
    c1, h1, _ = replay_once(stage, final)
    c2, h2, _ = replay_once(stage, final)
    if cls not in c1 or cls not in c2 or h1 != h2:
        harness_error("replay of %s is not reproducible (%s/%s, %s/%s)" % (final, c1, c2, h1, h2))
    return final, rep

# ---------------------------------------------------------------------------------------------
def check_property(prop, tier, seed, stages=None, extra_cov=None, class_filter=None, post=None):
    """generic check: returns exit code"""
    t_start = time.time()
    stages = stages or STAGES[prop]
    stages = [s for s in stages if s[tier] > 0]
    bt = build([target(s) for s in stages])
    rundir = os.path.join(BUILD, "run", "%s-%s-%d" % (prop, tier, os.getpid()))
    shutil.rmtree(rundir, ignore_errors=True)
    os.makedirs(rundir)
    known = load_known()
    all_results, all_crashes, stage_info = [], [], []
    gate_total = 0
    for st in stages:
        res, crashes, wall, ngate, mism = run_stage(st, prop, tier, seed, rundir)
        if mism:
            harness_error("determinism gate: %d of %d re-executed runs of %s/%s differ (first: index %s %s vs %s)" % (len(mism), ngate, st["engine"], st["flavour"], mism[0][0], mism[0][1], mism[0][2]))
        gate_total += ngate
        errs = [j for j in res if j.get("error")]
        if errs:
            harness_error("engine %s reported a harness error: %s (index %s)" % (st["engine"], errs[0]["error"], errs[0]["i"]))
        all_results += res
        for c in crashes: all_crashes.append((st,) + c)
        stage_info.append({"engine": st["engine"], "flavour": st["flavour"], "runs": len(res), "wall_s": round(wall, 2), "runs_per_hour": int(len(res) / max(wall, 1e-3) * 3600), "gate_reexecuted": ngate})
    # ---- collect violations of THIS property
    viol = []     # (cls, stage, file, res)
    for j in all_results:
        for cls in j["classes"]:
            if cls.startswith(SANITIZER_PREFIXES) and prop != "C07" and not (prop in RACE_PROPS and cls == "tsan:race"): continue
            if class_filter and not class_filter(cls, j): continue
            viol.append((cls, j["_stage"], j.get("viol_file"), j))
    crash_other = 0
    for st, cls, f, idx, tail in all_crashes:
        if prop == "C07" or cls == "hang" or (prop in RACE_PROPS and cls == "tsan:race") or st.get("crash_counts"):
            viol.append((cls, st, f, {"i": idx, "entry": "", "classes": [cls], "_stage": st, "detail": {"log_tail": tail[-800:]}}))
        else:
            crash_other += 1
    known_hits, real = {}, []
    for v in viol:
        k = match_known(prop, v[0], v[3], known)
        if k: known_hits.setdefault(k["id"], [k, 0]); known_hits[k["id"]][1] += 1
        else: real.append(v)
    for kid, (k, n) in sorted(known_hits.items()):
        print("KNOWN-FINDING: property=%s %s (%s; %d occurrences in this run)" % (prop, k["what"], kid, n), flush=True)
    reported = []
    by_class = {}
    for v in real: by_class.setdefault((v[0], v[1]["engine"], v[1]["flavour"]), []).append(v)
    unattributed = []
    for (cls, eng, flav), vs in sorted(by_class.items(), key=lambda kv: -len(kv[1])):
        if len(reported) >= 3: break
        vs.sort(key=lambda v: v[3]["i"])
        done = False
        for v in vs[:4]:
            if not v[2]: harness_error("violation without a case file")
            try:
                final, rep = minimise_and_confirm(prop, cls, v[1], v[2], os.environ.get("VERIF_REPLAYS", os.path.join(VERIF, "replays")), v[3].get("viol_file_prev"), sibling_isolated=any(s2.get("isolate") and s2["engine"] == v[1]["engine"] for s2 in stages))
            except Unattributed as ex:
                unattributed.append(str(ex)); continue
            reported.append((cls, final, len(vs), rep)); done = True
            break
    if unattributed and not reported:
        harness_error("; ".join(unattributed))
    wall = time.time() - t_start
    write_evidence(prop, tier, seed, all_results, stage_info, reported, known_hits, wall, bt, gate_total, crash_other, extra_cov)
    if post: post(all_results)
    for cls, final, n, rep in reported:
        print("VIOLATION property=%s replay=%s" % (prop, os.path.relpath(final, VERIF)), flush=True)
        print("  class=%s occurrences=%d engine=%s minimised=%s" % (cls, n, rep.get("engine"), json.dumps(rep.get("minimised"))), flush=True)
    if not os.environ.get("VERIF_KEEP"):
        shutil.rmtree(rundir, ignore_errors=True)
    return 1 if reported else 0

def write_evidence(prop, tier, seed, results, stage_info, reported, known_hits, wall, build_s, gate_total, crash_other, extra_cov):
    fired, probes, entries = {}, {}, {}
    dk, sfp = set(), set()
    samples = []
    steps = 0
    for j in results:
        for k, v in j.get("fired", {}).items(): fired[k] = fired.get(k, 0) + v
        for k, v in j.get("probes", {}).items(): probes[k] = probes.get(k, 0) + v
        e = j.get("entry") or "?"
        entries[e] = entries.get(e, 0) + 1
        if j.get("nontrivial"): dk.add(j["dkey"])
        if j.get("sched_fp") and j["sched_fp"] != "0" * 16: sfp.add(j["sched_fp"])
        steps += j.get("steps", 0)
        if "sample" in j and len(samples) < 4:
            samples.append({"index": j["i"], "entry": j.get("entry"), "case": j["sample"], "classes": j["classes"], "fired": j.get("fired"), "steps": j.get("steps")})
    if not samples and results:
        samples.append({"index": results[0]["i"], "entry": results[0].get("entry"), "note": "no non-trivial case carried a sample"})
    total_wall = sum(s["wall_s"] for s in stage_info) or 1e-3
    cov = {
        "evaluations": len(results),
        "distinct_nontrivial": len(dk),
        "rule": RULES.get(prop, ""),
        "samples": samples,
        "seeds": {"VERIF_SEED": seed, "per_run": "hash(VERIF_SEED, property, run index); schedule stream hash(VERIF_SEED, run index)"},
        "runs_per_hour": int(len(results) / total_wall * 3600),
        "simulated_steps": steps,
        "distinct_schedule_fingerprints": len(sfp),
        "faults_fired": fired,
        "reach_probes": probes,
        "entry_points": entries,
        "stages": stage_info,
        "determinism_gate": {"runs_reexecuted_in_other_process": gate_total, "mismatches": 0},
        "workers_died_on_other_properties_classes": crash_other,
        "known_findings_seen": {k: v[1] for k, v in known_hits.items()},
        "real_vs_stub": REAL_STUB,
        "build_s": round(build_s, 1),
        "exhaustive": False,
    }
    if extra_cov: cov.update(extra_cov)
    ev = {
        "property_id": prop, "tier": tier, "seed": seed, "level": "exploration", "coverage": cov,
        "assumptions": ["the shadow TBB / Boost.MPI runtimes model the real ones (DESIGN 2.3, 2.4)", "oracles in /verif/oracle are correct (brute force and de Pina cross-checked on every small graph)",
                        "sampling: a clean batch is evidence, not proof"],
        "wall_s": round(wall, 2),
        "violations": len(reported),
    }
    # evidence/ describes /repo itself: a run against another tree (bin/seedtest, VERIF_REPO=...) writes next to its replays
    evdir = os.path.join(VERIF, "evidence") if os.path.realpath(REPO) == "/repo" else os.path.join(os.path.dirname(os.environ.get("VERIF_REPLAYS", BUILD).rstrip("/")) or BUILD, "evidence-scratch")
    os.makedirs(evdir, exist_ok=True)
    tmp = os.path.join(evdir, prop + ".json.tmp")
    json.dump(ev, open(tmp, "w"), indent=1)
    os.replace(tmp, os.path.join(evdir, prop + ".json"))
