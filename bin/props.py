# Per-property configuration of the checks: what "distinct and non-trivial" means (DESIGN App. C)
# and any property-specific post-processing.
import vlib

R = vlib.RULES
R["C01"] = ("cases: seeded graph families (gnp over the whole density range, grids, tori, hypercubes, complete, bipartite, wheels, prisms, Petersen-like, "
            "cacti, theta graphs, trees, empty/edgeless, disjoint unions, pendant trees, isolated vertices, bridges) x weight scheme x weight type x edge-layout permutation "
            "x {signed, fvs_trees, iso_trees}. distinct = (graph hash, entry point); non-trivial = cycle-space dimension >= 2 and (two candidate cycles of equal exact weight exist "
            "[oracle A], or both search strategies of the signed algorithm fired [probes], or the graph is beyond brute force and was judged by oracle B)")
R["C02"] = R["C01"]
R["C05"] = ("cases: graphs as C01 x k in 1..5 x {approx_signed, approx_fvs_trees, approx_iso_trees} x layout; observation after the call has returned. "
            "distinct = (graph hash, entry, k); non-trivial = the spanner kept >= 1 cycle (exact phase emitted a cycle) and dropped >= 1 edge (probe approx_non_spanner_cycle)")
R["C06"] = R["C05"] + "; k = 0 cases: non-trivial when the graph has an edge"
R["C09"] = ("cases: small graphs with inexact double weights (0.1*i, 0.01*i, log-uniform in [1e-3,1e3], 0.1*{1,2,3}) x exact entry points x layout; optimum in exact rational "
            "arithmetic (every double decomposed exactly). distinct = (graph hash, entry); non-trivial = dimension >= 2 and two candidate cycles tie in exact arithmetic")
R["C15"] = ("cases: graphs as C01 x k in 1..5; the spanner is read through the PARMCB_VERIF accessors right after construction. distinct = (graph hash, k); "
            "non-trivial = >= 1 dropped edge and the retained subgraph has >= 1 cycle")

def run(prop, tier, seed):
    if prop not in vlib.STAGES:
        print("HARNESS-ERROR: no check registered for " + prop)
        return 2
    return vlib.check_property(prop, tier, seed)
