# Per-property configuration of the checks: what "distinct and non-trivial" means (DESIGN App. C)
# and any property-specific post-processing.
import vlib

R = vlib.RULES
R["C01"] = ("cases: seeded graph families (gnp over the whole density range, grids, tori, hypercubes, complete, bipartite, wheels, prisms, Petersen-like, "
            "cacti, theta graphs, trees, empty/edgeless, disjoint unions, pendant trees, isolated vertices, bridges) x weight scheme x weight type x edge-layout permutation "
            "x {signed, fvs_trees, iso_trees}. distinct = (graph hash, entry point); non-trivial = cycle-space dimension >= 2 and (two candidate cycles of equal exact weight exist "
            "[oracle A], or both search strategies of the signed algorithm fired [probes], or the graph is beyond brute force and was judged by oracle B)")
R["C02"] = R["C01"]
R["C05"] = ("cases: graphs as C01 x k in 1..5 x {approx_signed, approx_fvs_trees, approx_iso_trees} x layout (stage tbb: the approx_*_tbb entry points, k in 1..10, 20% multi-component graphs, seeded schedule); observation after the call has returned. "
            "distinct = (graph hash, entry, k); non-trivial = the spanner kept >= 1 cycle (exact phase emitted a cycle) and dropped >= 1 edge (probe approx_non_spanner_cycle)")
R["C06"] = R["C05"].replace(" (stage tbb: the approx_*_tbb entry points, k in 1..10, 20% multi-component graphs, seeded schedule)", "") + "; k = 0 cases: non-trivial when the graph has an edge"
R["C09"] = ("cases: small graphs with inexact double weights (0.1*i, 0.01*i, log-uniform in [1e-3,1e3], 0.1*{1,2,3}) x exact entry points x layout; optimum in exact rational "
            "arithmetic (every double decomposed exactly). distinct = (graph hash, entry); non-trivial = dimension >= 2 and two candidate cycles tie in exact arithmetic")
R["C15"] = ("cases: graphs as C01 x k in 1..5; the spanner is read through the PARMCB_VERIF accessors right after construction. distinct = (graph hash, k); "
            "non-trivial = >= 1 dropped edge and the retained subgraph has >= 1 cycle")

R["C03"] = ("cases: graph x layout x {signed_tbb, fvs_trees_tbb, iso_trees_tbb, approx_*_tbb (k 1..4)} x W in {1,2,3,4,8} x per-run split/steal probabilities (25 % with a steal budget of 1..2 per region, 30 % stealing only small right halves) x optional history of 1..2 earlier calls x the full "
            "choice stream (bisection, steals, strand interleaving at every leaf / push_back / join). distinct = (graph hash, entry, schedule fingerprint = hash of all scheduling decisions); "
            "non-trivial = the graph is non-trivial as in C01/C05 AND the schedule had >= 1 join of a stolen accumulator where at least one side had found a cycle, or >= 1 push_back "
            "that followed a push_back of another strand. The same generator runs in the TSan build, where fork/join edges are the only happens-before TSan sees")
R["C20"] = ("cases: sequences of set_global_tbb_concurrency(n) (n in {1,2,3,4,7,16,64}) interleaved with parallel library calls; reference model = the last value set; observed: "
            "global_control::active_value right after each call returns, the limit in force at the start of every parallel region, the number of simultaneously active strands. "
            "distinct = call-sequence hash; non-trivial = >= 2 calls with different n")

R["C04"] = ("cases: graph x {signed_mpi, fvs_trees_mpi, fvs_trees_tbb_mpi, iso_trees_mpi, iso_trees_tbb_mpi} x P in 1..8 x one layout seed per rank (uniform or independent) x W per rank x "
            "choice stream (rank progress, eager/synchronising collectives, reduce permutation and bracketing, nested TBB choices). distinct = (graph hash, entry, P, schedule+layout fingerprint); "
            "non-trivial = graph non-trivial as in C01, P >= 2 and (a reduce combined two existing candidates or the layouts differ between ranks)")
R["C08"] = ("cases: base graph x 3-6 exact entry points drawn from all 11 (3 sequential, 3 TBB, 5 MPI) x transformation pipeline of 1-4 steps x schedule/layout choices. "
            "distinct = (base graph hash, pipeline, entry set); non-trivial = cycle-space dimension >= 2 and at least two different back-ends compared")

R["C10"] = ("cases: structured DIMACS lines rendered to text x final newline present/absent x seeded read-chunk sizes {all,1,2,3,7,16,100,1000}. distinct = (text hash, chunking fingerprint); "
            "non-trivial = (a comment, an omitted weight, or no final newline) and the text was delivered in >= 2 chunks")
R["C12"] = "cases: exact-domain graphs biased to ties (40% all-unit weights), n <= 12 (40 in thorough), every source, every ordered pair. distinct = graph hash; non-trivial = some vertex pair has >= 2 shortest paths"
R["C13"] = "cases: simple graphs of all families incl. pendant trees and unions. distinct = graph hash; non-trivial = the graph has a cycle"
R["C14"] = "cases: exact-domain graphs n <= 9 (24 in thorough). distinct = graph hash; non-trivial = dimension >= 2 and two candidate cycles tie in weight"
R["C16"] = "cases: simple graphs incl. empty, edgeless, forests, unions. distinct = graph hash; non-trivial = >= 2 components or dimension >= 1"
R["C17"] = "cases: operation sequences of length 1..40 over 4 vectors, dimension 1..64 (10%: 10^6). distinct = sequence hash; non-trivial = some addition cancelled a common coordinate"
R["C18"] = ("cases: 30% ext_gcd pairs, 20% inverses, 12% primality blocks, 38% SpVecFP histories. distinct = case hash; non-trivial = negative or zero argument (gcd), a outside 0..p-1 (inverse), "
            "every primality block, a wrap-around / negative / >= p scalar (SpVecFP)")

R["C11"] = ("cases: DIMACS file (n <= 8, integer weights <= 400; 40% with 1-2 injected precondition violations) x program in {mcb-dimacs, approx-mcb-dimacs, collection-stats-dimacs, mcb-dimacs-mpi} x "
            "option vector (algorithm selection, --parallel, --cores, -v, --printcycles, --k 2..4, file first/last, boolean spellings) x P in {1,2,3,4,6} for the MPI demo x TBB/MPI choices. "
            "distinct = (file hash, argv, P, schedule fingerprint); non-trivial = rejected input with P >= 2, or valid input with a cycle")
R["C20"] += "; demo part: mcb-dimacs / approx-mcb-dimacs with --cores n in {1,2,3,4,7} and parallel algorithm, non-trivial when -v is absent"

R["C07"] = ("not a workload of its own: every engine re-runs the workload mix of its properties (seq: C01 C02 C05 C06 C09 C15; comp: C10 C12 C13 C14 C16 C17 C18; tbb: C03 C09 C20; "
            "mpi: C04 C08; the four demos: C11) with ASan + UBSan (no recovery) and an LSan leak check after every run; tbb and mpi additionally under TSan; thorough adds a valgrind pass over "
            "the plain build. Violations: any sanitizer / valgrind report, any worker death, and the arena's stale-descriptor oracle. distinct = per-engine case key; non-trivial as defined by the source property")

import json, os, random, re, subprocess, time

def real_runtime_crosscheck(seed, nfiles=10):
    """Thorough tier only, observation (never decides a property): the demo executables built by the
    repository's own CMake, real libtbb and real Open MPI under mpiexec, on a handful of files.
    Valid files: every algorithm / process count prints the weight the sequential demo prints.
    Rejected files: mpiexec -n 2 ends with a non-zero status within the time limit.
    A disagreement means the simulation's model and the real runtimes differ: exit 2, not a VIOLATION."""
    bdir = os.path.join(vlib.BUILD, "repo-cmake")
    t0 = time.time()
    p = subprocess.run("cmake -S %s -B %s -G Ninja -DCMAKE_BUILD_TYPE=Release >/dev/null 2>&1 && cmake --build %s --target mcb-dimacs mcb-dimacs-mpi 2>&1 | tail -3" % (vlib.REPO, bdir, bdir), shell=True, stdout=subprocess.PIPE, text=True)
    exe, exe_mpi = os.path.join(bdir, "mcb-dimacs"), os.path.join(bdir, "mcb-dimacs-mpi")
    if not (os.path.exists(exe) and os.path.exists(exe_mpi)):
        return {"ran": False, "reason": "cmake build of the real executables failed: " + p.stdout[-300:]}
    rnd = random.Random(seed)
    sdir = os.path.join(vlib.BUILD, "scratch"); os.makedirs(sdir, exist_ok=True)
    res = {"ran": True, "files": 0, "launches": 0, "agree": 0, "disagree": [], "build_s": round(time.time() - t0, 1)}
    def weight(out):
        m = re.search(r"MCB weight = ([-0-9.e+]+)", out); return float(m.group(1)) if m else None
    for k in range(nfiles):
        n = rnd.randint(4, 9); edges = set()
        for _ in range(rnd.randint(n, 2 * n)):
            u, v = rnd.randint(1, n), rnd.randint(1, n)
            if u != v: edges.add((min(u, v), max(u, v)))
        el = [(u, v, rnd.randint(1, 30)) for (u, v) in sorted(edges)]
        invalid = k % 3 == 2
        if invalid:
            kind = rnd.choice(["loop", "parallel", "nonpositive"])
            if kind == "loop": el.append((1, 1, 4))
            elif kind == "parallel" and el: el.append((el[0][1], el[0][0], 7))
            else: el[0] = (el[0][0], el[0][1], 0)
        path = os.path.join(sdir, "real-%d-%d.dimacs" % (os.getpid(), k))
        open(path, "w").write("p edge %d %d\n" % (n, len(el)) + "".join("e %d %d %d\n" % e for e in el))
        res["files"] += 1
        try:
            if invalid:
                q = subprocess.run(["mpiexec", "--allow-run-as-root", "--oversubscribe", "-n", "2", exe_mpi, path], stdout=subprocess.PIPE, stderr=subprocess.PIPE, timeout=60)
                res["launches"] += 1
                if q.returncode != 0: res["agree"] += 1
                else: res["disagree"].append({"file": k, "what": "rejected input but mpiexec -n 2 exited 0"})
            else:
                q = subprocess.run([exe, "--parallel=false", path], stdout=subprocess.PIPE, stderr=subprocess.PIPE, text=True, timeout=60)
                ref = weight(q.stdout); res["launches"] += 1
                for P in (1, 2, 3):
                    for alg in (["--signed=true"], ["--signed=false", "--fvstrees=true"], ["--signed=false", "--isotrees=true"]):
                        q = subprocess.run(["mpiexec", "--allow-run-as-root", "--oversubscribe", "-n", str(P), exe_mpi] + alg + [path], stdout=subprocess.PIPE, stderr=subprocess.PIPE, text=True, timeout=120)
                        res["launches"] += 1
                        w = weight(q.stdout)
                        if q.returncode == 0 and w is not None and ref is not None and abs(w - ref) <= 1e-5 * max(1.0, abs(ref)): res["agree"] += 1
                        else: res["disagree"].append({"file": k, "P": P, "alg": alg, "rc": q.returncode, "weight": w, "reference": ref})
        except subprocess.TimeoutExpired:
            res["disagree"].append({"file": k, "what": "timeout (real runtime did not terminate)", "invalid": invalid})
        finally:
            try: os.unlink(path)
            except OSError: pass
    res["wall_s"] = round(time.time() - t0, 1)
    return res

def run(prop, tier, seed):
    if prop not in vlib.STAGES:
        print("HARNESS-ERROR: no check registered for " + prop)
        return 2
    extra = None
    if prop in ("C11", "C04") and tier == "thorough" and not os.environ.get("VERIF_NO_REAL"):
        cc = real_runtime_crosscheck(seed)
        extra = {"real_runtime_crosscheck": cc}
        if cc.get("disagree"):
            print("HARNESS-ERROR: real-runtime cross-check disagrees with the simulation: " + json.dumps(cc["disagree"][:3]))
            return 2
    return vlib.check_property(prop, tier, seed, extra_cov=extra)
