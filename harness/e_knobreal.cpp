// Engine "knobreal": C20's library clause against the REAL oneTBB runtime (no shadow headers on the
// include path).  The call histories are the same as in the tbb engine; after every
// set_global_tbb_concurrency(n) the real tbb::global_control::active_value is read back.  No
// thread scheduling is involved in that read-back, so the run is deterministic; the number of
// distinct threads seen in a parallel_for afterwards is recorded as information only (real threads
// are not under the simulator's control) and kept out of the event log.  This guards the shadow's model of global_control (DESIGN §5 C20).
#include <atomic>
#include <mutex>
#include <set>
#include <thread>
#include "../sim/core/worker.hpp"
#include <boost/graph/adjacency_list.hpp>
#include <parmcb/util.hpp>
#include <tbb/parallel_for.h>
#include <tbb/global_control.h>

namespace {
using sim::Json;

class KnobReal : public sim::Engine {
public:
    const char* name() const override { return "knobreal"; }
    Json generate(const std::string &prop, const std::string &tier, sim::Rng &rng, uint64_t index) override {
        (void) prop; (void) tier; (void) index;
        Json cs = Json::object(); Json calls = Json::array();
        int n = (int) rng.range(1, 7);
        for (int k = 0; k < n; k++) calls.push(rng.pick(std::vector<int> { 1, 1, 2, 3, 4, 7, 16, 64 }));
        cs["calls"] = calls;
        cs["probe_threads"] = rng.chance(200);
        return cs;
    }
    void run(const Json &cs, sim::Chooser &ch, sim::RunResult &r) override {
        r.entry = "set_global_tbb_concurrency(real TBB)";
        r.dkey = sim::fnv_str(cs["calls"].dump());
        long last = -1; int distinct = 0;
        for (auto &c : cs["calls"].arr()) {
            size_t n = (size_t) c.as_int();
            parmcb::set_global_tbb_concurrency(n);
            size_t av = tbb::global_control::active_value(tbb::global_control::max_allowed_parallelism);
            ch.log.add(av);
            if ((long) n != last) { distinct++; last = (long) n; }
            if (av != n) { r.fail("not_in_force_after_return", "real TBB: after set_global_tbb_concurrency(" + std::to_string(n) + ") the allowed parallelism is " + std::to_string(av)); return; }
            if (cs["probe_threads"].as_bool()) {
                std::mutex m; std::set<std::thread::id> ids;
                tbb::parallel_for(tbb::blocked_range<int>(0, 20000, 1), [&](const tbb::blocked_range<int> &rg) {
                    volatile double x = 0; for (int i = rg.begin(); i < rg.end(); i++) x = x + i * 1e-9;
                    std::lock_guard<std::mutex> g(m); ids.insert(std::this_thread::get_id());
                });
                r.fired["thread_probe"]++;
                // observation of real threads: informational only.  Right after the limit was lowered oneTBB may still
                // have workers of the previous, larger limit in flight, so this is no deterministic oracle.
                if (ids.size() > n) r.fired["thread_probe_above_limit"]++;
            }
        }
        r.nontrivial = distinct >= 2;
    }
};
}

int main(int argc, char **argv) { KnobReal e; return sim::worker_main(e, argc, argv); }
