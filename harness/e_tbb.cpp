// Engine "tbb": the TBB-parallel entry points under the shadow TBB runtime and the baton
// scheduler (DESIGN §2.2, §2.3; C03, C09 parallel variants, C20 library part, C07).
// The same source is built with ASan+UBSan (functional oracles) and with TSan (race clause).
#define SIM_ARENA_DEFINE
#define SIM_SCHED_DEFINE
#define SIM_TBB_DEFINE
#include "common.hpp"

#include <parmcb/parmcb_sva_signed_tbb.hpp>
#include <parmcb/parmcb_sva_trees.hpp>
#include <parmcb/parmcb_approx_sva_signed_tbb.hpp>
#include <parmcb/parmcb_approx_sva_trees_tbb.hpp>
#include <parmcb/util.hpp>

#include "probes.hpp"
#include "verdicts.hpp"

using namespace hz;

namespace {

const char *EXACT[] = { "signed_tbb", "fvs_trees_tbb", "iso_trees_tbb" };
const char *APPROX[] = { "approx_signed_tbb", "approx_fvs_trees_tbb", "approx_iso_trees_tbb" };

template<class G, class WM, class Out>
typename boost::property_traits<WM>::value_type call_entry(const std::string &entry, const G &g, WM wm, size_t k, Out out) {
    if (entry == "signed_tbb") return parmcb::mcb_sva_signed_tbb(g, wm, out);
    if (entry == "fvs_trees_tbb") return parmcb::mcb_sva_fvs_trees_tbb(g, wm, out);
    if (entry == "iso_trees_tbb") return parmcb::mcb_sva_iso_trees_tbb(g, wm, out);
    if (entry == "approx_signed_tbb") return parmcb::approx_mcb_sva_signed_tbb(g, wm, k, out);
    if (entry == "approx_fvs_trees_tbb") return parmcb::approx_mcb_sva_fvs_trees_tbb(g, wm, k, out);
    if (entry == "approx_iso_trees_tbb") return parmcb::approx_mcb_sva_iso_trees_tbb(g, wm, k, out);
    throw std::runtime_error("unknown entry " + entry);
}

void apply_cfg(const Json &cfg) {
    sim::tbbcfg = sim::TbbCfg();
    sim::tbbcfg.W = (int) cfg.get_int("W", 1);
    sim::tbbcfg.split_pm = (int) cfg.get_int("split_pm", 550);
    sim::tbbcfg.steal_pm = (int) cfg.get_int("steal_pm", 500);
    sim::tbbcfg.hw = (int) cfg.get_int("hw", 16);
    sim::tbbcfg.steal_max_size = (int) cfg.get_int("steal_max_size", 0);
    sim::tbbcfg.steal_budget = (int) cfg.get_int("steal_budget", 0);
}

void collect_tbb(RunResult &r, sim::ProcCtx &proc) {
    sim::TbbStats &t = sim::tbbstats;
    if (t.splits) r.fired["split"] += t.splits;
    if (t.steals) r.fired["steal"] += t.steals;
    if (t.join_both) r.fired["join_both_found"] += t.join_both;
    if (t.join_one) r.fired["join_one_found"] += t.join_one;
    if (t.join_none) r.fired["join_none_found"] += t.join_none;
    if (t.body_on_found) r.fired["body_on_found_accumulator"] += t.body_on_found;
    if (t.push_other_strand) r.fired["push_interleave"] += t.push_other_strand;
    if (t.reduce_multi_run) r.fired["reduce_multi_run"] += t.reduce_multi_run;
    if (t.body_after_join_none) r.fired["body_after_join_of_two_not_found"] += t.body_after_join_none;
    if (t.regions_gt64) r.fired["region_range_gt64"] += t.regions_gt64;
    if (t.regions_gt256) r.fired["region_range_gt256"] += t.regions_gt256;
    if (t.regions_gt1024) r.fired["region_range_gt1024"] += t.regions_gt1024;
    r.detail["max_range"] = (long long) t.max_range;
    if (sim::tbbcfg.W > 1) r.fired["worker_cap_gt1"]++;
    r.detail["regions"] = (long long) t.regions;
    r.detail["max_active_strands"] = proc.max_active_strands;
    r.detail["switches"] = (long long) sim::Sched::get().switches;
}

template<class G>
void run_entry(const gen::GGraph &gg, const Json &cs, sim::Chooser &ch, RunResult &r) {
    typedef typename boost::graph_traits<G>::edge_descriptor Edge;
    typedef typename Built<G>::WT WT;
    std::string entry = cs["entry"].as_str(), prop = cs.get_str("prop", "any");
    size_t k = (size_t) cs["cfg"].get_int("k", 1);
    uint64_t layout = (uint64_t) cs["layouts"][0].as_int();
    bool approx = entry.rfind("approx_", 0) == 0;
    r.entry = entry;

    sim::Arena *ar = sim::arena(0);
    ar->reset(layout, (uint32_t) std::max(64, gg.m() + 8));
    sim::ProcCtx proc; proc.arena = ar; proc.active_strands = 1;
    sim::tl_proc = &proc; sim::tl_arena = ar;
    probes_reset(); sim::tbbstats.reset(); sim::cv_pool_reset();
    apply_cfg(cs["cfg"]);
    if (layout) r.fired["layout_perm"]++;
    ch.log.add(layout);

    Verdicts v(gg, r, prop);
    sim::Sched &s = sim::Sched::get();
    {
        sim::LayoutScope scope;
        Built<G> b;
        b.build(gg);
        auto wm = boost::get(boost::edge_weight, b.g);
        std::list<std::list<Edge>> cycles;
        WT ret = WT();
        bool threw = false, aborted = false;
        s.begin_run(&ch, 3000000);
        // history: earlier calls of TBB entry points in the same process (same vertex count, other weights / edges), executed
        // by the same virtual workers - state that survives a call (function-local statics, thread_local scratch of pool
        // threads) meets the next call.  Their results are not judged here (single calls are judged everywhere else).
        if (cs.has("prelude")) {
            for (auto &pc : cs["prelude"].arr()) {
                if (aborted || threw) break;
                gen::GGraph pg = gen::from_json(pc["graph"]);
                Built<G> pb; pb.build(pg);
                auto pwm = boost::get(boost::edge_weight, pb.g);
                std::list<std::list<Edge>> pcycles;
                try { (void) call_entry(pc["entry"].as_str(), pb.g, pwm, (size_t) pc.get_int("k", 1), std::back_inserter(pcycles)); }
                catch (const sim::SimAbort &) { aborted = true; }
                catch (const std::exception &) { threw = true; }
                r.fired["history_earlier_call"]++;
            }
        }
        if (!aborted && !threw)
        try { ret = call_entry(entry, b.g, wm, k, std::back_inserter(cycles)); }
        catch (const sim::SimAbort &) { aborted = true; }
        catch (const std::exception &) { threw = true; }
        std::string why = s.abort_reason;
        s.end_run();
        collect_tbb(r, proc);
        if (aborted) r.fail(why == "deadlock" ? "deadlock" : "budget", "run aborted: " + why);
        else {
            bool foreign, stale;
            std::vector<std::vector<int>> ids = cycles_to_ids(cycles, b, foreign, stale);
            add_cycle_events(ch, ids);
            if (approx && k == 0) v.k0(threw, ids.size());
            else if (threw) r.fail("unexpected_exception", "entry point threw on a valid input");
            else v.judge(ids, foreign, stale, (double) ret, approx, k);
            ch.log.add((uint64_t) (int64_t) std::llround(std::ldexp((double) ret, 20)));
        }
    }
    // C03's measure of a non-trivial schedule
    sim::TbbStats &t = sim::tbbstats;
    bool sched_nontrivial = (t.join_both + t.join_one) > 0 || t.push_other_strand > 0;
    if (prop != "C05") r.nontrivial = r.nontrivial && sched_nontrivial;
    r.sched_fp = ch.log.h;
    r.dkey = sim::mix64(r.dkey, ch.log.h);
    if (ar->exhausted) r.fired["arena_exhausted"] += ar->exhausted;
    probes_collect(r);
    sim::tl_proc = nullptr; sim::tl_arena = nullptr;
}

// ---- C20: the concurrency knob against the reference model "the last value set"
template<class G>
void run_knob(const gen::GGraph &gg, const Json &cs, sim::Chooser &ch, RunResult &r) {
    typedef typename boost::graph_traits<G>::edge_descriptor Edge;
    r.entry = "set_global_tbb_concurrency";
    sim::Arena *ar = sim::arena(0);
    ar->reset(0, 64);
    sim::ProcCtx proc; proc.arena = ar; proc.active_strands = 1;
    sim::tl_proc = &proc; sim::tl_arena = ar;
    probes_reset(); sim::tbbstats.reset(); sim::cv_pool_reset();
    apply_cfg(cs["cfg"]);
    sim::Sched &s = sim::Sched::get();
    sim::LayoutScope scope;      // edge nodes from the arena: pointer order must not depend on heap history
    Built<G> b; b.build(gg);
    auto wm = boost::get(boost::edge_weight, b.g);
    long model = -1;              // -1: never set -> the runtime default applies
    int distinct_n = 0; long last_n = -1;
    s.begin_run(&ch, 3000000);
    bool aborted = false;
    try {
        for (auto &c : cs["calls"].arr()) {
            std::string op = c["op"].as_str();
            if (op == "set") {
                size_t n = (size_t) c["n"].as_int();
                parmcb::set_global_tbb_concurrency(n);
                model = (long) n;
                if ((long) n != last_n) { distinct_n++; last_n = (long) n; }
                size_t av = tbb::global_control::active_value(tbb::global_control::max_allowed_parallelism);
                ch.log.add(av);
                if (av != n) r.fail("not_in_force_after_return", "set_global_tbb_concurrency(" + std::to_string(n) + ") returned, allowed parallelism is " + std::to_string(av));
            } else {
                size_t before = sim::tbbstats.region_log.size();
                proc.max_active_strands = 0;
                std::list<std::list<Edge>> cycles;
                call_entry(c["entry"].as_str(), b.g, wm, 2, std::back_inserter(cycles));
                for (size_t q = before; q < sim::tbbstats.region_log.size(); q++) {
                    size_t lim = sim::tbbstats.region_log[q].limit;
                    if (model >= 0 && (long) lim != model) { r.fail("region_limit", "a parallel region started with allowed parallelism " + std::to_string(lim) + ", last value set is " + std::to_string(model)); break; }
                }
                if (model >= 0 && proc.max_active_strands > model) r.fail("region_limit", "more strands active than the limit");
                r.fired["regions_observed"] += (long) (sim::tbbstats.region_log.size() - before);
            }
        }
    } catch (const sim::SimAbort &) { aborted = true; }
    catch (const std::exception &ex) { r.fail("unexpected_exception", std::string("a library call threw on a valid input: ") + ex.what()); }
    s.end_run();
    if (aborted) r.fail("budget", "aborted");
    r.nontrivial = distinct_n >= 2;
    r.dkey = sim::fnv_str(cs["calls"].dump());
    r.sched_fp = ch.log.h;
    sim::tl_proc = nullptr; sim::tl_arena = nullptr;
}

class TbbEngine : public sim::Engine {
public:
    const char* name() const override { return "tbb"; }
    void init() override {
        sim::arena_init();
        sim::cv_pool_init();
        learn_node_size<GraphD>();
        learn_node_size<GraphI>();
    }
    Json generate(const std::string &prop, const std::string &tier, sim::Rng &rng, uint64_t index) override {
        (void) index;
        std::string p = prop;
        if (p == "C07") p = rng.pick(std::vector<std::string> { "C03", "C03", "C09", "C20" });
        // C05 ("each approximate algorithm ..."): the approx_*_tbb entry points share the sequential glue of
        // detail/approx_spanner.hpp but take their own branches of it; same workload shape as C03 with approx forced
        bool c05 = p == "C05"; if (c05) p = "C03";
        gen::GenOpts o;
        bool thorough = tier == "thorough";
        if (p == "C09") { o.inexact = true; o.allow_int = false; }
        if (thorough && p == "C03" && rng.chance(250)) { o.max_n = 30; o.max_m = 80; } else { o.max_n = 9; o.max_m = 36; }
        if (p == "C20") { o.max_n = 7; o.max_m = 14; o.allow_int = false; }
        if (p == "C03") { o.core_sat_pm = 120; o.big_core_pm = 100; o.wide_pm = 50; o.dense_pm = prop == "C07" ? 4 : 12; }
        if (p == "C20") {} else if (p == "C03") { o.boundary_pm = prop == "C07" ? 30 : 6; o.boundary_max_n = 129; }
        if (c05) { o.multi_pm = 200; o.dense_pm = 0; o.wide_pm = 20; }
        bool approx = p == "C03" && (c05 || rng.chance(330));
        if (approx && rng.chance(400)) { o.max_n = std::max(o.max_n, (int) rng.range(10, 16)); o.max_m = std::max(o.max_m, 36); o.heavy_tail_pm = 1000; }
        if (approx) o.hubs_pm = 250;
        gen::GGraph g = gen::gen_graph(rng, o);
        Json cs = Json::object();
        cs["graph"] = gen::to_json(g);
        Json cfg = Json::object();
        cfg["W"] = rng.pick(std::vector<int> { 1, 2, 2, 3, 4, 4, 8 });
        cfg["split_pm"] = (int) rng.range(150, 950);
        cfg["steal_pm"] = (int) rng.range(150, 950);
        Json cmin = Json::object(); cmin["W"] = 1; cmin["split_pm"] = 0; cmin["steal_pm"] = 0;
        if (rng.chance(g.family == "core_satellites" ? 700 : 300)) { cfg["steal_max_size"] = (int) rng.range(1, 3); cfg["split_pm"] = (int) rng.range(800, 980); cfg["steal_pm"] = (int) rng.range(500, 950); cmin["steal_max_size"] = 0; }
        if (p != "C20" && rng.chance(250)) { cfg["steal_budget"] = (int) rng.range(1, 2); cfg["split_pm"] = (int) rng.range(850, 990); cfg["steal_pm"] = (int) rng.range(100, 600); cmin["steal_budget"] = 0; }
        if (p == "C20") {
            Json calls = Json::array();
            int ncalls = (int) rng.range(1, 6);
            for (int c = 0; c < ncalls; c++) {
                Json e = Json::object();
                if (c == 0 || rng.chance(550)) { e["op"] = "set"; e["n"] = rng.pick(std::vector<int> { 1, 1, 2, 3, 4, 7, 16, 64 }); }
                else { e["op"] = "run"; e["entry"] = rng.chance(800) ? EXACT[rng.below(3)] : APPROX[rng.below(3)]; }
                calls.push(e);
            }
            { Json e = Json::object(); e["op"] = "run"; e["entry"] = EXACT[rng.below(3)]; calls.push(e); }
            cs["calls"] = calls;
            cfg["W"] = 64;     // the run's own worker count does not constrain: only the knob does
            cfg["hw"] = 16;
        } else {
            int k = 1;
            if (approx) { cs["entry"] = APPROX[rng.below(3)]; k = (int) rng.pick(std::vector<int> { 1, 1, 2, 2, 3, 4 }); if (c05) k = (int) rng.pick(std::vector<int> { 1, 2, 2, 3, 3, 4, 5, 10 }); if (g.family == "hubs") k = (int) rng.pick(std::vector<int> { 2, 2, 2, 3 }); }
            else cs["entry"] = EXACT[rng.below(3)];
            if (g.family == "dense" && !approx && rng.chance(850)) cs["entry"] = rng.chance(500) ? "fvs_trees_tbb" : "iso_trees_tbb";   // candidate lists > 256
            if (g.family == "wide" && rng.chance(700)) cs["entry"] = approx ? "approx_signed_tbb" : "signed_tbb";
            if (g.family == "core_satellites" && g.n >= 9) cs["entry"] = approx ? "approx_signed_tbb" : "signed_tbb";   // big dense cores: the vertex reduce of the signed search
            cfg["k"] = k; cmin["k"] = 1;
        }
        if (p == "C03" && !c05 && g.n >= 3 && g.n <= 40 && g.m() >= 3 && rng.chance(120)) {
            Json pre = Json::array();
            int np = (int) rng.range(1, 2);
            for (int q = 0; q < np; q++) {
                gen::GGraph h = g;
                std::vector<int64_t> ws; for (auto &e : h.e) ws.push_back(e.w);
                rng.shuffle(ws); for (size_t i = 0; i < h.e.size(); i++) h.e[i].w = ws[i];
                if (rng.chance(500)) for (auto &e : h.e) if (rng.chance(300)) e.w = e.w + (int64_t) rng.range(1, 3);
                int drop = (int) rng.range(0, 2);
                for (int d = 0; d < drop && h.e.size() > 3; d++) h.e.erase(h.e.begin() + (long) rng.below(h.e.size()));
                Json pc = Json::object(); pc["graph"] = gen::to_json(h);
                pc["entry"] = rng.chance(700) ? cs["entry"].as_str() : (approx ? std::string(APPROX[rng.below(3)]) : std::string(EXACT[rng.below(3)]));
                pc["k"] = (int) cfg.get_int("k", 1);
                pre.push(pc);
            }
            cs["prelude"] = pre;
        }
        cs["cfg"] = cfg; cs["cfg_min"] = cmin;
        Json lay = Json::array(); lay.push(rng.chance(300) ? 0LL : (long long) (rng.next() >> 2)); cs["layouts"] = lay;
        cs["gen_prop"] = p;
        return cs;
    }
    void shrink_extra(const Json &cs, std::vector<Json> &out) override {
        // history cases: first try without the earlier calls, then with fewer of them
        if (!cs.has("prelude") || !cs["prelude"].is_arr()) return;
        { Json c = cs; c.erase("prelude"); c.erase("choices"); out.push_back(c); }
        for (size_t i = 0; i < cs["prelude"].size() && cs["prelude"].size() > 1; i++) {
            Json c = cs; Json pre = Json::array();
            for (size_t j = 0; j < cs["prelude"].size(); j++) if (j != i) pre.push(cs["prelude"][j]);
            c["prelude"] = pre; c.erase("choices"); out.push_back(c);
        }
    }
    void run(const Json &cs, sim::Chooser &ch, RunResult &r) override {
        gen::GGraph gg = gen::from_json(cs["graph"]);
        Json c2 = cs;
        bool c07 = cs.get_str("prop", "") == "C07";
        if (c07 && cs.has("gen_prop")) c2["prop"] = cs["gen_prop"];
        if (c2.get_str("prop", "") == "C20" || cs.has("calls")) run_knob<GraphD>(gg, c2, ch, r);
        else if (gg.wtype == "int") run_entry<GraphI>(gg, c2, ch, r);
        else run_entry<GraphD>(gg, c2, ch, r);
        if (c07) {
            std::vector<std::string> keep;
            for (auto &c : r.classes) if (c == "stale_descriptor" || c == "unexpected_exception") keep.push_back(c);
            r.classes = keep;
        }
    }
};

} // namespace

int main(int argc, char **argv) {
    TbbEngine e;
    return sim::worker_main(e, argc, argv);
}
