// C15: the intermediate spanner, observed through the guarded accessors (hook 2).
#pragma once
#include <queue>
#include "common.hpp"
#include <parmcb/parmcb_approx_sva_signed.hpp>

namespace hz {

// hop distance from s to t using only edges with usable[id], optionally skipping one edge; -1 if unreachable
inline int hop_distance(int n, const std::vector<std::pair<int,int>> &ends, const std::vector<char> &usable, int skip, int s, int t) {
    std::vector<int> d(n, -1);
    std::vector<std::vector<int>> adj(n);
    for (size_t id = 0; id < ends.size(); id++) if (usable[id] && (int) id != skip) { adj[ends[id].first].push_back(ends[id].second); adj[ends[id].second].push_back(ends[id].first); }
    std::queue<int> q; d[s] = 0; q.push(s);
    while (!q.empty()) { int u = q.front(); q.pop(); if (u == t) return d[u]; for (int w : adj[u]) if (d[w] < 0) { d[w] = d[u] + 1; q.push(w); } }
    return -1;
}

template<class G>
void check_spanner(Built<G> &b, const gen::GGraph &gg, size_t k, RunResult &r) {
    typedef typename boost::graph_traits<G>::edge_descriptor Edge;
    typedef typename boost::property_map<G, boost::edge_weight_t>::type WM;
    typedef std::back_insert_iterator<std::list<std::list<Edge>>> Out;
    typedef parmcb::detail::mcb_sva_signed<G, WM, Out> Exact;
    r.entry = "spanner";
    r.dkey = sim::mix64(gen::graph_hash(gg), 0x5a00 + k);
    WM wm = boost::get(boost::edge_weight, b.g);
    auto index_map = boost::get(boost::vertex_index, b.g);
    parmcb::detail::BaseApproxSpannerAlgorithm<G, WM, Exact, false> algo(b.g, wm, index_map, k);
    const G &sp = algo.verif_spanner();
    const auto &tr = algo.verif_edge_spanner_to_g();
    const auto &dropped = algo.verif_non_spanner_edges();
    int n = gg.n, m = gg.m();
    if ((int) boost::num_vertices(sp) != n) { r.fail("spanner_vertices", "spanner has " + std::to_string(boost::num_vertices(sp)) + " vertices"); return; }
    std::vector<char> retained(m, 0), is_dropped(m, 0);
    std::vector<std::pair<int,int>> ends(m);
    for (int id = 0; id < m; id++) ends[id] = std::make_pair(gg.e[id].u, gg.e[id].v);
    auto swm = boost::get(boost::edge_weight, sp);
    size_t sp_edges = 0;
    for (auto ep = boost::edges(sp); ep.first != ep.second; ++ep.first) {
        Edge se = *ep.first; sp_edges++;
        auto it = tr.find(se);
        if (it == tr.end()) { r.fail("translation", "a spanner edge has no image"); return; }
        int id = b.id_of(it->second);
        if (id < 0) { r.fail("translation", "image of a spanner edge is not an edge of the input"); return; }
        if (retained[id]) { r.fail("translation", "two spanner edges share an image"); return; }
        retained[id] = 1;
        int su = (int) boost::source(se, sp), sv = (int) boost::target(se, sp);
        if (!((su == ends[id].first && sv == ends[id].second) || (su == ends[id].second && sv == ends[id].first))) { r.fail("translation", "spanner edge joins other vertices than its image"); return; }
        if ((double) swm[se] != (double) wm[it->second]) r.fail("spanner_weight", "spanner edge weight " + std::to_string((double) swm[se]) + " input weight " + std::to_string((double) wm[it->second]));
    }
    if (tr.size() != sp_edges) r.fail("translation", "translation map size differs from spanner edge count");
    for (auto &e : dropped) {
        int id = b.id_of(e);
        if (id < 0) { r.fail("partition", "dropped list holds a non-edge"); return; }
        if (is_dropped[id] || retained[id]) { r.fail("partition", "edge both retained and dropped, or dropped twice"); return; }
        is_dropped[id] = 1;
    }
    for (int id = 0; id < m; id++) if (!retained[id] && !is_dropped[id]) { r.fail("partition", "edge neither retained nor dropped"); return; }
    if (k >= 1) {
        orc::Graph og = gen::to_oracle(gg);
        for (int id = 0; id < m; id++) {
            if (is_dropped[id]) {
                std::vector<char> usable(m, 0);
                for (int j = 0; j < m; j++) usable[j] = retained[j] && og.e[j].w <= og.e[id].w;
                int d = hop_distance(n, ends, usable, -1, ends[id].first, ends[id].second);
                if (d < 0 || d > (int) (2 * k - 1)) { r.fail("stretch", "dropped edge " + std::to_string(id) + " has no light path of <= 2k-1 retained edges (hops " + std::to_string(d) + ")"); break; }
            }
        }
        for (int id = 0; id < m; id++) {
            if (retained[id]) {
                int d = hop_distance(n, ends, retained, id, ends[id].first, ends[id].second);
                if (d >= 0 && d + 1 <= (int) (2 * k)) { r.fail("girth", "retained edge " + std::to_string(id) + " lies on a cycle of " + std::to_string(d + 1) + " <= 2k edges"); break; }
            }
        }
    }
    long nret = 0, ndrop = 0; for (int id = 0; id < m; id++) { nret += retained[id]; ndrop += is_dropped[id]; }
    orc::Graph sg; sg.n = n; for (int id = 0; id < m; id++) if (retained[id]) sg.e.push_back(orc::Edge { ends[id].first, ends[id].second, 1 });
    r.detail["retained"] = (long long) nret; r.detail["dropped"] = (long long) ndrop;
    r.nontrivial = ndrop >= 1 && orc::cycle_space_dim(sg) >= 1;
}

} // namespace hz
