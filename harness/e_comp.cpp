// Engine "comp": building blocks against small executable reference models
// (C10 DIMACS reader behind a seeded chunking stream, C12 SPTree, C13 greedy_fvs, C14 candidate
// collections, C16 ForestIndex, C17 SpVecGF2 histories, C18 fp / primes / SpVecFP histories).
#define SIM_ARENA_DEFINE
#define SIM_SCHED_DEFINE
#define SIM_TBB_DEFINE
#define _GNU_SOURCE 1
#include <cassert>
#include <cmath>
#include <stdexcept>
#include <cstdio>
#include "common.hpp"

#include <boost/multiprecision/cpp_int.hpp>
#include <parmcb/parmcb_sva_trees.hpp>
#include <parmcb/detail/cycles.hpp>
#include <parmcb/detail/fvs.hpp>
#include <parmcb/forestindex.hpp>
#include <parmcb/sptrees.hpp>
#include <parmcb/spvecgf2.hpp>
#include <parmcb/spvecfp.hpp>
#include <parmcb/fp.hpp>
#include <parmcb/util.hpp>

#include "probes.hpp"

using namespace hz;
typedef boost::multiprecision::cpp_int BigInt;

namespace {

// =============================================================================== C10
struct CookieStream { const std::string *text; size_t pos; sim::Chooser *ch; long chunks; };
ssize_t cookie_read(void *c, char *buf, size_t size) {
    CookieStream *s = (CookieStream*) c;
    size_t rem = s->text->size() - s->pos;
    if (rem == 0) return 0;
    static const size_t sizes[] = { 0, 1, 2, 3, 7, 16, 100, 1000 };   // 0 = everything the caller asks for
    size_t want = sizes[s->ch->choose(8, sim::T_CHUNK, 700)];
    size_t n = std::min(size, rem);
    if (want) n = std::min(n, want);
    memcpy(buf, s->text->data() + s->pos, n);
    s->pos += n; s->chunks++;
    return (ssize_t) n;
}

std::string render_line(const Json &l) {
    std::string k = l["k"].as_str();
    if (k == "c") return l["t"].as_str();
    if (k == "p") return "p " + l["name"].as_str() + " " + std::to_string(l["n"].as_int()) + " " + std::to_string(l["m"].as_int());
    std::string s = l["c"].as_str();
    const Json &sep = l["sep"];
    s += sep[0].as_str() + std::to_string(l["u"].as_int()) + sep[1].as_str() + std::to_string(l["v"].as_int());
    if (l["w"].is_str()) s += sep[2].as_str() + l["w"].as_str();
    return s + l.get_str("trail", "");
}

void run_c10(const Json &cs, sim::Chooser &ch, RunResult &r) {
    r.entry = "read_dimacs_from_file";
    std::string text;
    const Json &lines = cs["lines"];
    for (size_t k = 0; k < lines.size(); k++) { text += render_line(lines[k]); if (k + 1 < lines.size() || cs["final_newline"].as_bool()) text += "\n"; }
    // ---- reference model
    long n = 0; bool have_p = false, expect_throw = false;
    struct ME { long u, v; double w; };
    std::vector<ME> edges;
    bool comments = false, omitted = false;
    for (auto &l : lines.arr()) {
        std::string k = l["k"].as_str();
        if (k == "c") { comments = true; continue; }
        if (k == "p") { n = l["n"].as_int(); have_p = true; continue; }
        long u = l["u"].as_int(), v = l["v"].as_int();
        if (!have_p || u < 1 || u > n || v < 1 || v > n) { expect_throw = true; break; }
        double w = 1;
        if (l["w"].is_str()) w = strtod(l["w"].as_str().c_str(), nullptr); else omitted = true;
        edges.push_back(ME { u, v, w });
    }
    // ---- the real reader behind the chunking stream
    CookieStream cookie { &text, 0, &ch, 0 };
    cookie_io_functions_t io = { cookie_read, nullptr, nullptr, nullptr };
    FILE *fp = fopencookie(&cookie, "r", io);
    if (!fp) throw std::runtime_error("fopencookie failed");
    GraphD g;
    bool threw = false;
    try { parmcb::read_dimacs_from_file(fp, g); } catch (const std::system_error &) { threw = true; }
    fclose(fp);
    if (cookie.chunks > 1) r.fired["chunked_read"] += cookie.chunks;
    if (!cs["final_newline"].as_bool()) r.fired["no_final_newline"]++;
    r.dkey = sim::mix64(sim::fnv_str(text), ch.log.h);
    r.nontrivial = (comments || omitted || !cs["final_newline"].as_bool()) && cookie.chunks >= 2 && !lines.arr().empty();
    ch.log.add(sim::fnv_str(text));
    if (expect_throw != threw) { r.fail(expect_throw ? "missing_throw" : "spurious_throw", expect_throw ? "an edge names an undeclared vertex but no error was raised" : "std::system_error on a well-formed file"); return; }
    if (threw) return;
    if ((long) boost::num_vertices(g) != n) { r.fail("nvertices", "graph has " + std::to_string(boost::num_vertices(g)) + " vertices, the problem line declares " + std::to_string(n)); return; }
    if (boost::num_edges(g) != edges.size()) { r.fail("nedges", "graph has " + std::to_string(boost::num_edges(g)) + " edges, the file has " + std::to_string(edges.size()) + " edge lines"); return; }
    auto wm = boost::get(boost::edge_weight, g);
    size_t k = 0;
    bool loops = false, nonpos = false;
    for (auto ep = boost::edges(g); ep.first != ep.second; ++ep.first, ++k) {
        auto e = *ep.first;
        long s = (long) boost::source(e, g) + 1, t = (long) boost::target(e, g) + 1;
        if (s != edges[k].u || t != edges[k].v) { r.fail("endpoint", "edge " + std::to_string(k) + " joins " + std::to_string(s) + "-" + std::to_string(t) + ", file says " + std::to_string(edges[k].u) + "-" + std::to_string(edges[k].v)); return; }
        if (wm[e] != edges[k].w) { r.fail("weight", "edge " + std::to_string(k) + " has weight " + std::to_string(wm[e]) + ", file says " + std::to_string(edges[k].w)); return; }
        if (edges[k].u == edges[k].v) loops = true;
        if (edges[k].w <= 0) nonpos = true;
    }
    // ---- validators on the graph just read
    if (parmcb::has_loops(g) != loops) r.fail("pred:has_loops", "has_loops answered " + std::to_string(!loops));
    if (parmcb::has_non_positive_weights(g, wm) != nonpos) r.fail("pred:has_non_positive_weights", "has_non_positive_weights answered " + std::to_string(!nonpos));
    if (!loops) {
        std::set<std::pair<long,long>> seen; bool multi = false;
        for (auto &e : edges) if (!seen.insert(std::make_pair(std::min(e.u, e.v), std::max(e.u, e.v))).second) multi = true;
        if (parmcb::has_multiple_edges(g) != multi) r.fail("pred:has_multiple_edges", "has_multiple_edges answered " + std::to_string(!multi));
    }
}

Json gen_c10(sim::Rng &rng) {
    Json cs = Json::object();
    Json lines = Json::array();
    long n = rng.chance(60) ? 0 : rng.range(1, 12);
    long m = n == 0 ? 0 : rng.range(0, 14);
    auto comment = [&]() {
        Json l = Json::object(); l["k"] = "c";
        std::string t = rng.chance(500) ? "c" : "#";
        // content length up to 1022 = buffer size - 2 (the quantifier: lines shorter than the 1024-byte buffer);
        // the last few lengths before the buffer fills are the interesting ones
        int len = rng.chance(60) ? (rng.chance(500) ? (int) rng.range(1016, 1021) : (int) rng.range(900, 1021)) : (int) rng.range(0, 30);
        for (int i = 0; i < len; i++) t += (char) (" abcdefghij0123456789 e a p"[rng.below(27)]);
        l["t"] = t; return l;
    };
    auto blank = [&]() { std::string s; int c = rng.chance(700) ? 1 : (int) rng.range(1, 4); for (int i = 0; i < c; i++) s += rng.chance(800) ? ' ' : '\t'; return s; };
    while (rng.chance(300)) lines.push(comment());
    { Json p = Json::object(); p["k"] = "p"; p["name"] = rng.chance(700) ? "edge" : (rng.chance(500) ? "sp" : "col"); p["n"] = (long long) n; p["m"] = (long long) m; lines.push(p); }
    bool bad = rng.chance(60);
    long badpos = bad ? rng.range(0, std::max<long>(0, m - 1)) : -1;
    for (long k = 0; k < m; k++) {
        while (rng.chance(120)) lines.push(comment());
        Json e = Json::object(); e["k"] = "e"; e["c"] = rng.chance(700) ? "e" : "a";
        long u = rng.range(1, n), v = rng.range(1, n);
        if (rng.chance(80)) v = u;                                   // loop
        if (k > 0 && rng.chance(120)) { const Json &prev = lines[lines.size() - 1]; if (prev["k"].as_str() == "e") { u = prev["v"].as_int(); v = prev["u"].as_int(); } }   // parallel edge
        if (k == badpos) { if (rng.chance(500)) u = rng.chance(500) ? 0 : n + 1; else v = rng.chance(500) ? 0 : n + 1; }
        e["u"] = (long long) u; e["v"] = (long long) v;
        int wk = (int) rng.below(100);
        if (wk < 20) e["w"] = Json();
        else if (wk < 55) e["w"] = std::to_string(rng.range(1, 200));
        else if (wk < 75) { char b[32]; snprintf(b, sizeof b, "%ld.%02ld", (long) rng.range(0, 50), (long) rng.range(0, 99)); e["w"] = b; }
        else if (wk < 82) e["w"] = "0";
        else if (wk < 90) e["w"] = "-" + std::to_string(rng.range(1, 9));
        else if (wk < 95) { char b[32]; snprintf(b, sizeof b, "%ld", (long) rng.range(10, 99999)); e["w"] = b; }
        else e["w"] = rng.chance(500) ? "0.5" : "1e2";
        Json sep = Json::array(); sep.push(blank()); sep.push(blank()); sep.push(blank()); e["sep"] = sep;
        if (rng.chance(60)) e["trail"] = " ";
        else if (rng.chance(25)) {      // pad the edge line with blanks up to the last lengths that still fit the buffer
            size_t target = (size_t) rng.range(1015, 1022), cur = render_line(e).size();
            if (cur < target) e["trail"] = std::string(target - cur, rng.chance(800) ? ' ' : '\t');
        }
        lines.push(e);
    }
    while (rng.chance(150)) lines.push(comment());
    cs["lines"] = lines;
    cs["final_newline"] = !rng.chance(350);
    return cs;
}

// =============================================================================== C12
template<class G>
void run_c12(const gen::GGraph &gg, RunResult &r) {
    typedef typename boost::graph_traits<G>::edge_descriptor Edge;
    typedef typename boost::property_map<G, boost::edge_weight_t>::type WM;
    r.entry = "SPTree";
    r.dkey = gen::graph_hash(gg);
    Built<G> b; b.build(gg);
    WM wm = boost::get(boost::edge_weight, b.g);
    auto index_map = boost::get(boost::vertex_index, b.g);
    int n = gg.n, shift;
    orc::Graph og = gen::to_oracle(gg, &shift);
    // O-sp: Floyd-Warshall in exact integers
    const orc::W INF = ((orc::W) 1) << 100;
    std::vector<std::vector<orc::W>> D(n, std::vector<orc::W>(n, INF));
    std::vector<std::vector<long>> cnt(n, std::vector<long>(n, 0));
    for (int v = 0; v < n; v++) D[v][v] = 0;
    for (auto &e : og.e) { D[e.u][e.v] = std::min(D[e.u][e.v], e.w); D[e.v][e.u] = std::min(D[e.v][e.u], e.w); }
    for (int k = 0; k < n; k++) for (int i = 0; i < n; i++) for (int j = 0; j < n; j++) if (D[i][k] + D[k][j] < D[i][j]) D[i][j] = D[i][k] + D[k][j];
    std::vector<parmcb::SPTree<G, WM>> trees;
    trees.reserve(n);
    for (int s = 0; s < n; s++) trees.emplace_back((size_t) s, b.g, index_map, wm, (typename boost::graph_traits<G>::vertex_descriptor) s);
    // path[s][v] = edge ids from v back to s
    std::vector<std::vector<std::vector<int>>> path(n, std::vector<std::vector<int>>(n));
    std::vector<std::vector<std::vector<int>>> pverts(n, std::vector<std::vector<int>>(n));
    bool ties = false;
    for (int s = 0; s < n; s++) {
        for (int v = 0; v < n; v++) {
            auto node = trees[s].node(v);
            bool reach = D[s][v] < INF;
            if ((node != nullptr) != reach) { r.fail("reachability", "source " + std::to_string(s) + " vertex " + std::to_string(v) + (reach ? " is reachable but has no node" : " is unreachable but has a node")); return; }
            if (!reach) continue;
            bool ok; orc::W w = to_exact((double) node->weight(), shift, ok);
            if (!ok || w != D[s][v]) { r.fail("dist", "source " + std::to_string(s) + " vertex " + std::to_string(v) + ": tree says " + std::to_string((double) node->weight()) + ", true distance " + orc::w_str(D[s][v]) + "/2^" + std::to_string(shift)); return; }
            // walk the predecessor chain
            int cur = v, steps = 0; orc::W sum = 0; int child_of_root = v;
            std::vector<int> ids, verts; verts.push_back(v);
            while (cur != s) {
                auto nd = trees[s].node(cur);
                if (!nd || !nd->has_pred() || steps++ > n) { r.fail("pred_tree", "predecessor chain of " + std::to_string(v) + " from source " + std::to_string(s) + " does not reach the root"); return; }
                int id = b.id_of(nd->pred());
                if (id < 0) { r.fail("pred_tree", "predecessor edge is not an edge of the graph"); return; }
                int a = gg.e[id].u, c = gg.e[id].v;
                if (a != cur && c != cur) { r.fail("pred_tree", "predecessor edge of " + std::to_string(cur) + " is not incident to it"); return; }
                sum += og.e[id].w; ids.push_back(id);
                child_of_root = cur;
                cur = (a == cur) ? c : a;
                verts.push_back(cur);
            }
            if (sum != D[s][v]) { r.fail("pred_tree", "root path of " + std::to_string(v) + " from " + std::to_string(s) + " has length " + orc::w_str(sum) + ", distance is " + orc::w_str(D[s][v])); return; }
            int first = (int) trees[s].first(v);
            if (first != (v == s ? s : child_of_root)) { r.fail("first", "first(" + std::to_string(v) + ") in tree " + std::to_string(s) + " is " + std::to_string(first) + ", the path leaves the root through " + std::to_string(child_of_root)); return; }
            path[s][v] = ids; pverts[s][v] = verts;
        }
    }
    // number of shortest paths (ties) by counting, for the non-triviality measure
    for (int s = 0; s < n && !ties; s++) for (int v = 0; v < n && !ties; v++) if (s != v && D[s][v] < INF) {
        int preds = 0;
        for (auto &e : og.e) { if (e.v == v && D[s][e.u] + e.w == D[s][v]) preds++; if (e.u == v && D[s][e.v] + e.w == D[s][v]) preds++; }
        if (preds >= 2) ties = true;
    }
    for (int u = 0; u < n; u++) for (int v = 0; v < n; v++) {
        if (u == v || D[u][v] >= INF) continue;
        // path[u][v] lists edges from v back to u; path[v][u] from u back to v
        std::vector<int> rev = path[v][u]; std::reverse(rev.begin(), rev.end());
        if (rev != path[u][v]) { r.fail("reverse", "tree path " + std::to_string(u) + "->" + std::to_string(v) + " is not the reverse of the tree path " + std::to_string(v) + "->" + std::to_string(u)); return; }
        // sub-paths: for every inner vertex w of path(u -> v), the chosen path w -> v is its suffix
        const std::vector<int> &vs = pverts[u][v];      // v ... u
        for (size_t k = 1; k + 1 < vs.size(); k++) {
            int w = vs[k];
            std::vector<int> suffix(path[u][v].begin(), path[u][v].begin() + (long) k);   // edges from v back to w
            if (path[w][v] != suffix) { r.fail("subpath", "path " + std::to_string(u) + "->" + std::to_string(v) + " passes " + std::to_string(w) + " but the chosen path " + std::to_string(w) + "->" + std::to_string(v) + " is a different one"); return; }
        }
    }
    r.nontrivial = ties;
}

// =============================================================================== C13
void run_c13(const gen::GGraph &gg, RunResult &r) {
    r.entry = "greedy_fvs";
    r.dkey = gen::graph_hash(gg);
    Built<GraphD> b; b.build(gg);
    std::vector<size_t> out;
    parmcb::greedy_fvs(b.g, std::back_inserter(out));
    std::vector<char> removed(gg.n, 0);
    for (size_t v : out) {
        if (v >= (size_t) gg.n) { r.fail("not_a_vertex", "emitted " + std::to_string(v)); return; }
        if (removed[v]) { r.fail("duplicate", "vertex " + std::to_string(v) + " emitted twice"); return; }
        removed[v] = 1;
    }
    orc::UnionFind uf(std::max(1, gg.n));
    for (auto &e : gg.e) if (!removed[e.u] && !removed[e.v]) if (!uf.unite(e.u, e.v)) { r.fail("not_fvs", "a cycle survives the removal of the emitted vertices (edge " + std::to_string(e.u) + "-" + std::to_string(e.v) + ")"); return; }
    orc::Graph og = gen::to_oracle(gg);
    int dim = orc::cycle_space_dim(og);
    if (dim == 0 && !out.empty()) r.fail("forest_nonempty", "the graph is a forest but " + std::to_string(out.size()) + " vertices were emitted");
    r.nontrivial = dim >= 1;
}

// =============================================================================== C14
template<class G, class Builder>
bool collect(const char *name, Built<G> &b, const gen::GGraph &gg, const orc::Graph &og, int shift, RunResult &r,
        std::set<std::pair<int,int>> &keys, std::vector<std::pair<orc::W, std::vector<int>>> &cyc) {
    typedef typename boost::property_map<G, boost::edge_weight_t>::type WM;
    WM wm = boost::get(boost::edge_weight, b.g);
    std::vector<parmcb::SPTree<G, WM>> trees;
    std::vector<parmcb::CandidateCycle<G, WM>> cycles;
    trees.reserve(gg.n + 1);
    Builder builder;
    builder(b.g, wm, trees, cycles);
    for (auto &c : cycles) {
        if (c.tree() >= trees.size()) { r.fail(std::string(name) + ":tree_index", "candidate refers to tree " + std::to_string(c.tree())); return false; }
        auto &tree = trees[c.tree()];
        int root = (int) tree.source();
        int id = b.id_of(c.edge());
        if (id < 0) { r.fail(std::string(name) + ":edge", "candidate edge is not an edge of the graph"); return false; }
        int u = gg.e[id].u, v = gg.e[id].v;
        std::vector<int> ids; ids.push_back(id);
        orc::W w = og.e[id].w;
        std::set<int> seen_vertices;
        for (int side = 0; side < 2; side++) {
            int cur = side ? v : u, steps = 0;
            while (cur != root) {
                if (!seen_vertices.insert(cur).second) { r.fail(std::string(name) + ":not_simple", "the two root paths of a candidate (root " + std::to_string(root) + ", edge " + std::to_string(u) + "-" + std::to_string(v) + ") share vertex " + std::to_string(cur)); return false; }
                auto nd = tree.node(cur);
                if (!nd || !nd->has_pred() || steps++ > gg.n) { r.fail(std::string(name) + ":unreachable", "an endpoint of a candidate edge has no root path"); return false; }
                int pid = b.id_of(nd->pred());
                if (pid == id) { r.fail(std::string(name) + ":tree_edge", "the candidate's edge is a tree edge of its own tree"); return false; }
                ids.push_back(pid); w += og.e[pid].w;
                cur = gg.e[pid].u == cur ? gg.e[pid].v : gg.e[pid].u;
            }
        }
        bool ok; orc::W rec = to_exact((double) c.weight(), shift, ok);
        if (!ok || rec != w) { r.fail(std::string(name) + ":weight", "recorded weight " + std::to_string((double) c.weight()) + ", true weight " + orc::w_str(w) + "/2^" + std::to_string(shift)); return false; }
        std::string sc = orc::check_simple_cycle(og, ids);
        if (!sc.empty()) { r.fail(std::string(name) + ":not_simple", "candidate is not one simple cycle: " + sc); return false; }
        keys.insert(std::make_pair(root, id));
        std::sort(ids.begin(), ids.end());
        cyc.emplace_back(w, ids);
    }
    return true;
}

bool greedy_reaches(const orc::Graph &og, std::vector<std::pair<orc::W, std::vector<int>>> cyc, const orc::Opt &opt, int dim, std::string &msg) {
    std::sort(cyc.begin(), cyc.end());
    std::vector<std::vector<int>> chosen; orc::W total = 0;
    for (auto &c : cyc) {
        if ((int) chosen.size() == dim) break;
        chosen.push_back(c.second);
        if (orc::gf2_rank(chosen, og.m()) != (int) chosen.size()) chosen.pop_back(); else total += c.first;
    }
    if ((int) chosen.size() != dim) { msg = "greedy selection reaches dimension " + std::to_string(chosen.size()) + " of " + std::to_string(dim); return false; }
    if (total != opt.total) { msg = "greedy selection weighs " + orc::w_str(total) + ", optimum " + orc::w_str(opt.total); return false; }
    return true;
}

template<class G>
void run_c14(const gen::GGraph &gg, RunResult &r) {
    typedef typename boost::property_map<G, boost::edge_weight_t>::type WM;
    r.entry = "CyclesBuilders";
    r.dkey = gen::graph_hash(gg);
    int shift; orc::Graph og = gen::to_oracle(gg, &shift);
    int dim = orc::cycle_space_dim(og);
    Built<G> b; b.build(gg);
    std::set<std::pair<int,int>> kh, kf, ki;
    std::vector<std::pair<orc::W, std::vector<int>>> ch_, cf, ci;
    if (!collect<G, parmcb::detail::HortonCyclesBuilder<G, WM>>("horton", b, gg, og, shift, r, kh, ch_)) return;
    if (!collect<G, parmcb::detail::FVSCyclesBuilder<G, WM>>("fvs", b, gg, og, shift, r, kf, cf)) return;
    if (!collect<G, parmcb::detail::ISOCyclesBuilder<G, WM>>("iso", b, gg, og, shift, r, ki, ci)) return;
    for (auto &k : kf) if (!kh.count(k)) { r.fail("fvs:not_in_horton", "FVS candidate (root " + std::to_string(k.first) + ", edge " + std::to_string(k.second) + ") is not a Horton candidate"); return; }
    for (auto &k : ki) if (!kh.count(k)) { r.fail("iso:not_in_horton", "isometric candidate (root " + std::to_string(k.first) + ", edge " + std::to_string(k.second) + ") is not a Horton candidate"); return; }
    OptCache oc; oc.compute(og, false);
    if (!oc.have) return;
    std::string msg;
    if (!greedy_reaches(og, ch_, oc.opt, dim, msg)) { r.fail("horton:insufficient", msg); return; }
    if (!greedy_reaches(og, cf, oc.opt, dim, msg)) { r.fail("fvs:insufficient", msg); return; }
    if (!greedy_reaches(og, ci, oc.opt, dim, msg)) { r.fail("iso:insufficient", msg); return; }
    r.detail["horton"] = (long long) ch_.size(); r.detail["fvs"] = (long long) cf.size(); r.detail["iso"] = (long long) ci.size();
    r.nontrivial = dim >= 2 && oc.opt.has_tie;
    if (ci.size() < ch_.size()) r.fired["iso_smaller_than_horton"]++;
    if (cf.size() < ch_.size()) r.fired["fvs_smaller_than_horton"]++;
}

// =============================================================================== C16
void run_c16(const gen::GGraph &gg, RunResult &r, int history = 0) {
    r.entry = "ForestIndex";
    r.dkey = sim::mix64(gen::graph_hash(gg), (uint64_t) history);
    Built<GraphD> b; b.build(gg);
    // histories: 0 = the object as constructed; 1 = a copy whose source has been destroyed;
    // 2 = copy-assigned over an index of another graph, source destroyed; 3 = swapped
    typedef parmcb::ForestIndex<GraphD> FI;
    std::unique_ptr<FI> holder;
    {
        std::unique_ptr<FI> src(new FI(b.g));
        if (history == 0) holder = std::move(src);
        else if (history == 1) { holder.reset(new FI(*src)); src.reset(); }
        else if (history == 2) { GraphD other; boost::add_vertex(other); boost::add_vertex(other); boost::add_edge(0, 1, other); holder.reset(new FI(other)); *holder = *src; src.reset(); }
        else { GraphD other; boost::add_vertex(other); FI tmp(other); std::swap(tmp, *src); holder.reset(new FI(tmp)); src.reset(); }
    }
    if (history) r.fired["forestindex_copy_history"]++;
    const FI &fi = *holder;
    orc::Graph og = gen::to_oracle(gg);
    int c = gg.n == 0 ? 0 : orc::components(og), m = gg.m(), dim = m - gg.n + c;
    if ((int) fi.weak_connected_components() != c) { r.fail("components", "reports " + std::to_string(fi.weak_connected_components()) + " components, graph has " + std::to_string(c)); return; }
    if ((int) fi.cycle_space_dimension() != dim) { r.fail("dimension", "reports dimension " + std::to_string(fi.cycle_space_dimension()) + ", m-n+c = " + std::to_string(dim)); return; }
    std::vector<char> seen(m, 0);
    orc::UnionFind uf(std::max(1, gg.n)); int forest_edges = 0;
    for (int id = 0; id < m; id++) {
        size_t idx = fi(b.eds[id]);
        if (idx >= (size_t) m) { r.fail("range", "edge " + std::to_string(id) + " has index " + std::to_string(idx)); return; }
        if (seen[idx]) { r.fail("not_injective", "two edges share index " + std::to_string(idx)); return; }
        seen[idx] = 1;
        if (b.id_of(fi(idx)) != id) { r.fail("not_inverse", "index " + std::to_string(idx) + " maps back to another edge"); return; }
        bool onf = fi.is_on_forest(b.eds[id]);
        if (onf != (idx >= (size_t) dim)) { r.fail("forest_first", "edge with index " + std::to_string(idx) + " is_on_forest=" + std::to_string(onf) + " but the dimension is " + std::to_string(dim)); return; }
        if (onf) { forest_edges++; if (!uf.unite(gg.e[id].u, gg.e[id].v)) { r.fail("forest_cyclic", "the edges reported on the forest contain a cycle"); return; } }
    }
    if (forest_edges != gg.n - c) { r.fail("forest_size", "forest has " + std::to_string(forest_edges) + " edges, n-c = " + std::to_string(gg.n - c)); return; }
    r.nontrivial = c >= 2 || dim >= 1;
}

// =============================================================================== C17
void run_c17(const Json &cs, RunResult &r) {
    typedef parmcb::SpVecGF2<size_t> V;
    r.entry = "SpVecGF2";
    r.dkey = sim::fnv_str(cs["ops"].dump());
    const int POOL = 4;
    std::vector<V> pool(POOL);
    std::vector<std::set<size_t>> model(POOL);
    bool cancel = false;
    auto sym = [&](const std::set<size_t> &a, const std::set<size_t> &b) { std::set<size_t> o; std::set_symmetric_difference(a.begin(), a.end(), b.begin(), b.end(), std::inserter(o, o.end())); return o; };
    auto common = [&](const std::set<size_t> &a, const std::set<size_t> &b) { size_t c = 0; for (auto x : a) c += b.count(x); return c; };
    auto to_set = [&](const Json &a) { std::set<size_t> s; for (auto &x : a.arr()) s.insert((size_t) x.as_int()); return s; };
    size_t step = 0;
    for (auto &op : cs["ops"].arr()) {
        std::string o = op["op"].as_str();
        int a = (int) op.get_int("a", 0) % POOL, b = (int) op.get_int("b", 0) % POOL, c = (int) op.get_int("c", 0) % POOL;
        if (o == "unit") { size_t i = (size_t) op["i"].as_int(); pool[a] = V(i); model[a] = { i }; }
        else if (o == "set") { std::set<size_t> s = to_set(op["s"]); pool[a] = V(s); model[a] = s; }
        else if (o == "copy") { V t(pool[b]); pool[a] = t; model[a] = model[b]; }
        else if (o == "move") { V t(pool[b]); V u(std::move(t)); pool[a] = std::move(u); model[a] = model[b]; }
        else if (o == "assign") { pool[a] = pool[b]; model[a] = model[b]; }
        else if (o == "self_assign") { V &ref = pool[a]; pool[a] = ref; }
        else if (o == "add") { pool[c] = pool[a] + pool[b]; if (common(model[a], model[b])) cancel = true; model[c] = sym(model[a], model[b]); }
        else if (o == "add_assign") { if (common(model[a], model[b])) cancel = true; pool[a] += pool[b]; model[a] = sym(model[a], model[b]); }
        else if (o == "clear") { pool[a].clear(); model[a].clear(); }
        else if (o == "dot") {
            int got = pool[a] * pool[b], want = (int) (common(model[a], model[b]) % 2);
            if (got != want) { r.fail("dot", "step " + std::to_string(step) + ": product of two vectors is " + std::to_string(got) + ", parity of common coordinates is " + std::to_string(want)); return; }
        } else if (o == "dot_set") {
            std::set<size_t> s = to_set(op["s"]);
            int got = pool[a] * s, want = (int) (common(model[a], s) % 2);
            if (got != want) { r.fail("dot", "step " + std::to_string(step) + ": product with an index set is " + std::to_string(got) + ", expected " + std::to_string(want)); return; }
        }
        for (int k = 0; k < POOL; k++) {
            std::vector<size_t> got(pool[k].begin(), pool[k].end());
            for (size_t q = 1; q < got.size(); q++) if (!(got[q - 1] < got[q])) { r.fail("order", "step " + std::to_string(step) + " (" + o + "): vector " + std::to_string(k) + " is not strictly increasing"); return; }
            std::vector<size_t> want(model[k].begin(), model[k].end());
            if (got != want) { r.fail("content", "step " + std::to_string(step) + " (" + o + "): vector " + std::to_string(k) + " differs from the dense computation"); return; }
            if (pool[k].size() != model[k].size()) { r.fail("size", "step " + std::to_string(step) + ": size() is " + std::to_string(pool[k].size())); return; }
        }
        step++;
    }
    r.nontrivial = cancel;
}

Json gen_c17(sim::Rng &rng) {
    Json cs = Json::object(); Json ops = Json::array();
    size_t dim = rng.chance(100) ? 1000000 : (rng.chance(300) ? (size_t) rng.range(40, 80) : (size_t) rng.range(1, 64));
    bool lopsided = rng.chance(60);        // a few vectors with 64..400 entries next to vectors with 0..8: size ratios beyond 32
    if (lopsided) dim = (size_t) rng.pick(std::vector<int> { 512, 1024, 4096 });
    std::vector<size_t> lastbig;
    auto rset = [&]() {
        Json s = Json::array(); std::set<size_t> t;
        int k = (dim >= 40 && rng.chance(250)) ? (int) rng.range(17, 48) : (int) rng.range(0, 8);
        if (lopsided && rng.chance(350)) {
            k = (int) rng.range(64, 400);
            if (rng.chance(500)) { size_t base = rng.below(dim / 2); for (int i = 0; i < k; i++) t.insert(base + (size_t) i); k = 0; }
            for (int i = 0; i < k; i++) t.insert((size_t) rng.below(dim));
            lastbig.assign(t.begin(), t.end()); k = 0;
        } else if (lopsided && !lastbig.empty() && rng.chance(600)) {
            // a short vector interleaved with the last long one: members, direct neighbours of members, and gaps
            k = (int) rng.range(2, 6);
            for (int i = 0; i < k; i++) { size_t x = lastbig[rng.below(lastbig.size())]; int d = (int) rng.range(-1, 2); if (d == 2) d = 0; if (d < 0 && x == 0) d = 0; t.insert(x + (size_t) (long) d < dim ? (size_t) ((long) x + d) : x); }
            k = 0;
        }
        for (int i = 0; i < k; i++) t.insert((size_t) rng.below(dim));
        for (auto x : t) s.push((long long) x);
        return s;
    };
    int n = (int) rng.range(1, 40);
    static const char *names[] = { "unit", "set", "copy", "move", "assign", "self_assign", "add", "add_assign", "add_assign", "add", "clear", "dot", "dot_set" };
    for (int k = 0; k < n; k++) {
        Json o = Json::object(); o["op"] = names[rng.below(13)];
        if (lopsided && rng.chance(600)) o["op"] = rng.chance(450) ? "set" : "dot";     // long and short vectors meet in products
        o["a"] = (int) rng.below(4); o["b"] = (int) rng.below(4); o["c"] = (int) rng.below(4);
        o["i"] = (long long) rng.below(dim); o["s"] = rset();
        ops.push(o);
    }
    cs["ops"] = ops;
    return cs;
}

// =============================================================================== C18
template<class T> BigInt big(const T &v) { return BigInt(v); }
BigInt model_gcd(BigInt a, BigInt b) { if (a < 0) a = -a; if (b < 0) b = -b; while (b != 0) { BigInt t = a % b; a = b; b = t; } return a; }
bool model_prime(long p) { if (p < 2) return false; for (long d = 2; d * d <= p; d++) if (p % d == 0) return false; return true; }

template<class T> T from_ll(long long v) { return T(v); }

template<class T>
bool check_gcd(long long a0, long long b0, RunResult &r, const char *tn) {
    T a = from_ll<T>(a0), b = from_ll<T>(b0), x = T(77), y = T(77);
    T g = parmcb::fp<T>::ext_gcd(a, b, x, y);
    BigInt G = model_gcd(BigInt(a0), BigInt(b0));
    std::string where = std::string("ext_gcd<") + tn + ">(" + std::to_string(a0) + "," + std::to_string(b0) + ")";
    if (big(g) < 0) { r.fail("gcd", where + " returned a negative gcd"); return false; }
    if (big(g) != G) { r.fail("gcd", where + " returned " + big(g).str() + ", gcd is " + G.str()); return false; }
    // coefficients of a zero argument are irrelevant (the property asks for a*x + b*y = g)
    BigInt lhs = BigInt(a0) * (a0 == 0 ? BigInt(0) : big(x)) + BigInt(b0) * (b0 == 0 ? BigInt(0) : big(y));
    if (lhs != G) { r.fail("bezout", where + ": a*x + b*y = " + lhs.str() + " with x=" + big(x).str() + " y=" + big(y).str() + ", gcd is " + G.str()); return false; }
    return true;
}
template<class T>
bool check_inverse(long long a0, long long p0, RunResult &r, const char *tn) {
    T a = from_ll<T>(a0), p = from_ll<T>(p0);
    bool threw = false; T inv = T(0);
    try { inv = parmcb::fp<T>::get_mult_inverse(a, p); } catch (std::runtime_error *e) { threw = true; delete e; } catch (...) { threw = true; }
    bool coprime = model_gcd(BigInt(a0), BigInt(p0)) == 1;
    std::string where = std::string("get_mult_inverse<") + tn + ">(" + std::to_string(a0) + "," + std::to_string(p0) + ")";
    if (!coprime) { if (!threw) { r.fail("missing_throw", where + " did not throw although gcd != 1"); return false; } return true; }
    if (threw) { r.fail("inverse", where + " threw although gcd = 1"); return false; }
    BigInt prod = (BigInt(a0) * big(inv)) % BigInt(p0);
    if (prod < 0) prod += BigInt(p0);
    if (prod != BigInt(1) % BigInt(p0)) { r.fail("inverse", where + " returned " + big(inv).str() + ", a*r mod p = " + prod.str()); return false; }
    return true;
}
template<class T>
bool check_prime(long p0, RunResult &r, const char *tn) {
    bool got = parmcb::primes<T>::is_prime(from_ll<T>(p0)), want = model_prime(p0);
    if (got != want) { r.fail("prime", std::string("is_prime<") + tn + ">(" + std::to_string(p0) + ") = " + (got ? "true" : "false")); return false; }
    return true;
}

template<class P>
bool run_fpvec(const Json &ops, long long p0, RunResult &r, const char *tn, bool &wrapped) {
    typedef parmcb::SpVecFP<P> V;
    const int POOL = 3;
    P p = from_ll<P>(p0);
    std::vector<V> pool; for (int k = 0; k < POOL; k++) pool.emplace_back(p);
    std::vector<std::map<size_t, BigInt>> model(POOL);
    BigInt bp(p0);
    auto norm = [&](BigInt v) { v %= bp; if (v < 0) v += bp; return v; };
    size_t step = 0;
    for (auto &op : ops.arr()) {
        std::string o = op["op"].as_str();
        int a = (int) op.get_int("a", 0) % POOL, b = (int) op.get_int("b", 0) % POOL, c = (int) op.get_int("c", 0) % POOL;
        long long s = op.get_int("s", 1);
        if (o == "unit") { size_t i = (size_t) op["i"].as_int(); pool[a] = i; model[a].clear(); model[a][i] = 1; }
        else if (o == "copy") { V t(pool[b]); pool[a] = t; model[a] = model[b]; }
        else if (o == "move") { V t(pool[b]); V u(std::move(t)); pool[a] = std::move(u); model[a] = model[b]; }   // move construction + move assignment: entries and modulus travel
        else if (o == "assign") { pool[a] = pool[b]; model[a] = model[b]; }                                        // a == b: plain self assignment
        else if (o == "self_assign") { V &ref = pool[a]; pool[a] = ref; pool[a] = std::move(ref); }                 // copy and move self assignment keep the vector
        else if (o == "build") {
            // a vector with many coordinates and chosen residues (often p-1, p-2, (p-1)/2), assembled through the public
            // operations only: sum of scaled unit vectors
            V acc(p); std::map<size_t, BigInt> m;
            for (auto &cv : op["coords"].arr()) {
                size_t i = (size_t) cv[0].as_int(); long long val = cv[1].as_int();
                if (m.count(i) || norm(BigInt(val)) == 0) continue;
                V u(p); u = i; u *= from_ll<P>(val); acc += u; m[i] = norm(BigInt(val));
            }
            pool[a] = acc; model[a] = m; wrapped = true;
        }
        else if (o == "add" || o == "add_assign") {
            std::map<size_t, BigInt> m = model[a];
            for (auto &kv : model[b]) { BigInt v = norm((m.count(kv.first) ? m[kv.first] : BigInt(0)) + kv.second); if (m.count(kv.first) && m[kv.first] + kv.second >= bp) wrapped = true; if (v == 0) m.erase(kv.first); else m[kv.first] = v; }
            if (o == "add") { pool[c] = pool[a] + pool[b]; model[c] = m; } else { pool[a] += pool[b]; model[a] = m; }
        } else if (o == "scale" || o == "scale_assign") {
            std::map<size_t, BigInt> m;
            if (s < 0 || s >= p0) wrapped = true;
            for (auto &kv : model[a]) { BigInt v = norm(kv.second * BigInt(s)); if (v != 0) m[kv.first] = v; }
            if (o == "scale") { pool[c] = pool[a] * from_ll<P>(s); model[c] = m; } else { pool[a] *= from_ll<P>(s); model[a] = m; }
        } else if (o == "dot") {
            BigInt want = 0;
            for (auto &kv : model[a]) if (model[b].count(kv.first)) want = norm(want + kv.second * model[b][kv.first]);
            P got = pool[a] * pool[b];
            if (norm(big(got)) != want) { r.fail("dot", std::string("SpVecFP<") + tn + "> step " + std::to_string(step) + ": dot product " + big(got).str() + ", expected " + want.str() + " mod " + bp.str()); return false; }
        } else if (o == "clear") { pool[a].clear(); model[a].clear(); }
        for (int k = 0; k < POOL; k++) {
            size_t prev = 0; bool first = true; size_t cnt = 0;
            auto mit = model[k].begin();
            for (auto it = pool[k].begin(); it != pool[k].end(); ++it, ++cnt) {
                size_t idx = boost::get<0>(*it); BigInt val = big(boost::get<1>(*it));
                if (!first && !(prev < idx)) { r.fail("order", std::string("SpVecFP<") + tn + "> step " + std::to_string(step) + " (" + o + "): indices not increasing"); return false; }
                if (val < 1 || val >= bp) { r.fail("range", std::string("SpVecFP<") + tn + "> step " + std::to_string(step) + " (" + o + "): stored value " + val.str() + " is outside 1..p-1 (p=" + bp.str() + ")"); return false; }
                if (mit == model[k].end() || mit->first != idx || mit->second != val) { r.fail("content", std::string("SpVecFP<") + tn + "> step " + std::to_string(step) + " (" + o + "): differs from the dense computation at index " + std::to_string(idx)); return false; }
                ++mit; prev = idx; first = false;
            }
            if (mit != model[k].end()) { r.fail("content", std::string("SpVecFP<") + tn + "> step " + std::to_string(step) + " (" + o + "): a non-zero coordinate is missing"); return false; }
        }
        step++;
    }
    return true;
}

void run_c18(const Json &cs, RunResult &r) {
    std::string kind = cs["kind"].as_str();
    r.entry = kind;
    r.dkey = sim::fnv_str(cs.dump());
    if (kind == "gcd") {
        long long a = cs["a"].as_int(), b = cs["b"].as_int();
        r.nontrivial = a < 0 || b < 0 || a == 0 || b == 0;
        if (a == 0 && b == 0) return;     // not both zero
        if (std::llabs(a) < 40000 && std::llabs(b) < 40000) if (!check_gcd<int>(a, b, r, "int")) return;
        if (!check_gcd<long>(a, b, r, "long")) return;
        if (!check_gcd<BigInt>(a, b, r, "cpp_int")) return;
    } else if (kind == "inverse") {
        long long a = cs["a"].as_int(), p = cs["p"].as_int();
        r.nontrivial = a < 0 || a >= p;
        if (std::llabs(a) < 40000 && p < 40000) if (!check_inverse<int>(a, p, r, "int")) return;
        if (!check_inverse<long>(a, p, r, "long")) return;
        if (!check_inverse<BigInt>(a, p, r, "cpp_int")) return;
    } else if (kind == "prime") {
        long lo = cs["lo"].as_int(), hi = cs["hi"].as_int();
        r.nontrivial = true;
        for (long p = lo; p <= hi; p++) {
            if (!check_prime<int>(p, r, "int")) return;
            if (!check_prime<long>(p, r, "long")) return;
            if (p < 3000 || p % 97 == 0) if (!check_prime<BigInt>(p, r, "cpp_int")) return;
        }
    } else if (kind == "fpvec") {
        long long p = cs["p"].as_int();
        bool wrapped = false;
        std::string t = cs["type"].as_str();
        if (t == "int") run_fpvec<int>(cs["ops"], p, r, "int", wrapped);
        else if (t == "long") run_fpvec<long>(cs["ops"], p, r, "long", wrapped);
        else run_fpvec<BigInt>(cs["ops"], p, r, "cpp_int", wrapped);
        r.nontrivial = wrapped;
    }
}

Json gen_c18(sim::Rng &rng, uint64_t index) {
    Json cs = Json::object();
    int pick = (int) rng.below(100);
    auto special = [&](long long big_) { static const long long sm[] = { 0, 1, -1, 2, -2, 3, 5, -7, 12, -12, 17, 64, -100 }; if (rng.chance(500)) return sm[rng.below(13)]; long long v = rng.range(1, big_); return rng.chance(400) ? -v : v; };
    if (pick < 30) {
        cs["kind"] = "gcd";
        long long a = special(2000000000LL), b = special(2000000000LL);
        if (rng.chance(150)) b = a; if (rng.chance(150)) b = a * (long long) rng.range(-5, 5);
        if (std::llabs(b) > 2000000000LL) b = 6;
        cs["a"] = a; cs["b"] = b;
    } else if (pick < 50) {
        cs["kind"] = "inverse";
        static const long long ps[] = { 2, 3, 5, 7, 11, 13, 101, 7919, 65537, 2147483647LL, 4, 6, 9, 15, 100 };
        long long p = ps[rng.below(15)];
        long long a = rng.chance(300) ? special(1000000) : rng.range(1, p - 1 > 1 ? p - 1 : 1);
        if (rng.chance(100)) a = p * (long long) rng.range(1, 3);
        if (a == 0) a = p;      // gcd(0, p) = p: throws unless p = 1
        cs["a"] = a; cs["p"] = p;
    } else if (pick < 62) {
        cs["kind"] = "prime";
        bool block = rng.chance(600);
        long lo = block ? (rng.chance(250) ? 2 : 2 + (long) rng.below(400) * 250) : (long) rng.range(2, 2147395000L);
        (void) index;
        cs["lo"] = (long long) lo; cs["hi"] = (long long) (lo + (block ? 249 : 20));
    } else {
        cs["kind"] = "fpvec";
        int t = (int) rng.below(3);
        cs["type"] = t == 0 ? "int" : t == 1 ? "long" : "cpp_int";
        static const long long small[] = { 2, 3, 5, 7, 11, 13, 31, 101 };
        long long p = t == 0 ? small[rng.below(8)] : t == 1 ? (rng.chance(500) ? small[rng.below(8)] : 2147483647LL) : (rng.chance(400) ? small[rng.below(8)] : 2305843009213693951LL);
        cs["p"] = p;
        Json ops = Json::array();
        int n = (int) rng.range(1, 30);
        static const char *names[] = { "unit", "unit", "copy", "add", "add_assign", "scale", "scale_assign", "dot", "clear", "add" };
        long long smax = t == 0 ? 40 : t == 1 ? (p > 1000 ? 2147483647LL : 100000) : 4000000000000000000LL;
        bool many = rng.chance(300);      // vectors with up to 40 coordinates whose residues sit near p-1: long accumulations in a dot product
        for (int k = 0; k < n; k++) {
            Json o = Json::object(); o["op"] = names[rng.below(10)];
            o["a"] = (int) rng.below(3); o["b"] = (int) rng.below(3); o["c"] = (int) rng.below(3);
            o["i"] = (long long) rng.below(12);
            if (rng.chance(120)) { static const char *life[] = { "move", "assign", "self_assign", "move" }; o["op"] = life[rng.below(4)]; }
            if (many && rng.chance(300)) {
                o["op"] = "build";
                Json cv = Json::array(); int cnt = (int) rng.range(2, 40);
                for (int q = 0; q < cnt; q++) {
                    Json pr = Json::array(); pr.push((long long) rng.below(48));
                    long long val = rng.chance(500) ? p - 1 - (long long) rng.below(3) : rng.chance(300) ? (p - 1) / 2 + (long long) rng.below(2) : rng.range(1, p > 2 ? p - 1 : 1);
                    if (val < 1) val = 1;
                    pr.push(val); cv.push(pr);
                }
                o["coords"] = cv;
            }
            long long s = rng.chance(250) ? p * (long long) rng.range(0, 2) : rng.range(0, smax);
            if (s > smax) s = smax;
            if (rng.chance(300)) s = -s;
            if (rng.chance(150)) s = rng.range(-3, 3);
            o["s"] = s;
            ops.push(o);
        }
        cs["ops"] = ops;
    }
    return cs;
}

// ===============================================================================
class CompEngine : public sim::Engine {
public:
    const char* name() const override { return "comp"; }
    void init() override { sim::arena_init(); learn_node_size<GraphD>(); learn_node_size<GraphI>(); }
    Json generate(const std::string &prop, const std::string &tier, sim::Rng &rng, uint64_t index) override {
        std::string p = prop;
        if (p == "C07") p = rng.pick(std::vector<std::string> { "C10", "C12", "C13", "C14", "C16", "C17", "C18" });
        Json cs;
        if (p == "C10") cs = gen_c10(rng);
        else if (p == "C17") cs = gen_c17(rng);
        else if (p == "C18") cs = gen_c18(rng, index);
        else {
            gen::GenOpts o;
            bool thorough = tier == "thorough";
            if (p == "C12") { o.max_n = thorough && rng.chance(300) ? 40 : 12; o.max_m = thorough ? 120 : 40; }
            else if (p == "C13") { o.max_n = thorough && rng.chance(300) ? 60 : 14; o.max_m = 200; o.allow_int = false; }
            else if (p == "C14") { o.max_n = thorough && rng.chance(250) ? 24 : 9; o.max_m = thorough ? 60 : 30; }
            else if (p == "C16") { o.max_n = thorough && rng.chance(300) ? 60 : 12; o.max_m = 200; o.allow_int = false; }
            o.multi_pm = (p == "C13" || p == "C16") ? 120 : 60; if (p == "C13" || p == "C14" || p == "C16") o.max_n = std::max(o.max_n, 16);
            o.boundary_pm = prop == "C07" ? 25 : 10; o.boundary_max_n = (p == "C13" || p == "C16") ? 257 : 65;
            gen::GGraph g = gen::gen_graph(rng, o);
            if (p == "C12" && rng.chance(400)) for (auto &e : g.e) e.w = 1;      // maximal ties
            else if (p == "C12" && g.wtype == "int" && rng.chance(350)) {
                // large int weights: every sum the search can form (a distance plus one more edge) stays <= INT_MAX = n * cap,
                // while distances on long paths pass INT_MAX / 2.  Half of these cases use a path-like graph (long shortest paths).
                if (rng.chance(500)) {
                    gen::EL el; int n = (int) rng.range(5, 12);
                    if (rng.chance(500)) { for (int i = 0; i + 1 < n; i++) el.emplace_back(i, i + 1); if (rng.chance(500)) el.emplace_back((int) rng.below(3), (int) rng.range(2, 4)); }
                    else gen::fam_cycle_chords(rng, n, (int) rng.range(0, 1), el);
                    gen::dedup(el);
                    g = gen::from_el(n, el); g.wtype = "int"; g.family = "longpath";
                    gen::relabel_and_shuffle(rng, g);
                }
                int64_t cap = (int64_t) 2147483647 / std::max(1, g.n);
                for (auto &e : g.e) e.w = rng.range(std::max<int64_t>(1, cap * 3 / 4), cap);
                g.wexp = 0;
            }
            else if (p == "C16" && rng.chance(40)) {
                // wide-index family: n just above 2^8 or 2^16, a few cycles on small vertex numbers, and for each of their edges
                // {a,b} with a odd the edge {a-1, 2^k+b}: pairs of edges that coincide under half-word packings of the two endpoints
                int k = rng.chance(500) ? 8 : 16, r0 = (int) rng.range(12, 40), n = (1 << k) + r0;
                gen::EL el; int nv = (int) rng.range(3, 9), tries = (int) rng.range(3, 12);
                for (int i = 0; i + 1 < nv; i++) el.emplace_back(i, i + 1);
                el.emplace_back(0, nv - 1);
                for (int i = 0; i < tries; i++) { int a = (int) rng.below(nv), b = (int) rng.below(nv); if (a != b) el.emplace_back(std::min(a, b), std::max(a, b)); }
                gen::dedup(el);
                gen::EL base = el;
                for (auto &e : base) { int a = std::min(e.first, e.second), b = std::max(e.first, e.second); if ((a & 1) && rng.chance(700)) el.emplace_back(a - 1, (1 << k) + b); }
                if (rng.chance(500)) for (int i = nv; i + 1 < nv + 6; i++) el.emplace_back(i, i + 1);      // a separate tree component
                gen::dedup(el);
                g = gen::from_el(n, el); g.wtype = "double"; g.family = "wide_index";
                for (auto &e : g.e) e.w = 1;
                std::vector<size_t> perm(g.e.size()); for (size_t i = 0; i < perm.size(); i++) perm[i] = i;
                for (size_t i = perm.size(); i > 1; i--) std::swap(perm[i - 1], perm[rng.below(i)]);
                std::vector<gen::GEdge> sh; for (auto i : perm) sh.push_back(g.e[i]); g.e = sh;           // edge order shuffled, vertex numbers kept
            }
            else if (p == "C12" && g.wtype == "double" && !g.inexact && rng.chance(200)) {
                // magnitude family: the same numerators at 2^-70 .. 2^-55 (all differences far below machine epsilon in absolute
                // terms) or 2^40; every sum stays exact, so distances and ties are exactly those of the unscaled graph
                g.wexp += (int) rng.pick(std::vector<int> { -70, -60, -55, 40 });
                g.family += "+mag";
            }
            cs = Json::object();
            cs["graph"] = gen::to_json(g);
            if (p == "C16") cs["history"] = rng.chance(400) ? (int) rng.range(1, 3) : 0;
        }
        cs["gen_prop"] = p;
        return cs;
    }
    void run(const Json &cs, sim::Chooser &ch, RunResult &r) override {
        std::string p = cs.get_str("prop", "any");
        if (p == "C07" || p == "any") p = cs.get_str("gen_prop", p);
        sim::Arena *ar = sim::arena(0); ar->reset(0, 64); sim::tl_arena = ar;
        probes_reset();
        if (p == "C10") run_c10(cs, ch, r);
        else if (p == "C17") run_c17(cs, r);
        else if (p == "C18") run_c18(cs, r);
        else {
            gen::GGraph gg = gen::from_json(cs["graph"]);
            sim::LayoutScope scope;   // edge nodes from the arena: pointer order independent of heap history
            if (p == "C12") { if (gg.wtype == "int") run_c12<GraphI>(gg, r); else run_c12<GraphD>(gg, r); }
            else if (p == "C13") run_c13(gg, r);
            else if (p == "C14") { if (gg.wtype == "int") run_c14<GraphI>(gg, r); else run_c14<GraphD>(gg, r); }
            else if (p == "C16") run_c16(gg, r, (int) cs.get_int("history", 0));
            else throw std::runtime_error("comp engine: unknown property " + p);
        }
        for (auto &c : r.classes) ch.log.add_str(c);
        probes_collect(r);
        sim::tl_arena = nullptr;
        if (cs.get_str("prop", "") == "C07") r.classes.clear();     // C07 rides on these workloads for the sanitizer verdict only
    }
    bool valid(const Json &cs) override {
        if (cs.has("lines")) {
            // exactly one problem line, before every edge line
            int np = 0; bool edge_seen = false;
            for (auto &l : cs["lines"].arr()) { std::string k = l["k"].as_str(); if (k == "p") { np++; if (edge_seen) return false; } if (k == "e") edge_seen = true; }
            return np == 1;
        }
        return true;
    }
};

} // namespace

int main(int argc, char **argv) {
    CompEngine e;
    return sim::worker_main(e, argc, argv);
}
