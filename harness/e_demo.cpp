// Engines "demo_*": the command-line programs of /repo/src run in-process (DESIGN §2.7; C11 and
// the --cores clause of C20).  This file is compiled four times, once per demo, with
//   -DDEMO_SRC='"<repo>/src/<name>.cpp"'  -DDEMO_KIND=<1 mcb | 2 approx | 3 stats | 4 mpi>
// The demo's main() is renamed, exit() is routed to the simulator, std::cout / std::cerr are
// captured per simulated process, TBB and Boost.MPI are the shadow runtimes.
#define SIM_ARENA_DEFINE
#define SIM_SCHED_DEFINE
#define SIM_TBB_DEFINE
#define SIM_MPI_DEFINE
#include <sys/stat.h>
#include <fstream>
#include <iostream>
#include <list>
#include <map>
#include <boost/config.hpp>
#include <boost/format.hpp>
#include <boost/graph/adjacency_list.hpp>
#include <boost/graph/graph_traits.hpp>
#include <boost/program_options.hpp>
#include <boost/property_map/property_map.hpp>
#include <boost/thread.hpp>
#include <boost/timer/timer.hpp>
#include "common.hpp"
#include <boost/mpi/communicator.hpp>
#include <boost/mpi/environment.hpp>
#include <parmcb/parmcb.hpp>
#include <parmcb/util.hpp>
#include <parmcb/detail/cycles.hpp>
#include <parmcb/sptrees.hpp>
#if DEMO_KIND == 4
#include <parmcb/mpi/parmcb.hpp>
#endif
#include "probes.hpp"

#ifndef DEMO_KIND
#error "DEMO_KIND not defined"
#endif

int demo_main(int argc, char *argv[]);

namespace {

using namespace hz;

struct DemoExit { int code; };
[[noreturn]] void sim_exit(int code) { throw DemoExit { code }; }

// std::cout / std::cerr of the demo go to the calling simulated process
class ProcBuf : public std::streambuf {
public:
    ProcBuf(bool err, std::streambuf *orig) : err(err), orig(orig) {}
protected:
    int overflow(int c) override {
        if (c == EOF) return 0;
        if (sim::tl_proc) { sim::IgnoreGuard ig; (err ? sim::tl_proc->err : sim::tl_proc->out) += (char) c; }
        else orig->sputc((char) c);
        return c;
    }
    std::streamsize xsputn(const char *s, std::streamsize n) override {
        if (sim::tl_proc) { sim::IgnoreGuard ig; (err ? sim::tl_proc->err : sim::tl_proc->out).append(s, (size_t) n); }
        else orig->sputn(s, n);
        return n;
    }
private:
    bool err; std::streambuf *orig;
};

const char* demo_name() { return DEMO_KIND == 1 ? "mcb-dimacs" : DEMO_KIND == 2 ? "approx-mcb-dimacs" : DEMO_KIND == 3 ? "collection-stats-dimacs" : "mcb-dimacs-mpi"; }

struct ProcRun {
    sim::ProcCtx proc; std::vector<std::string> args; int status = -1000; bool finished = false, threw_other = false; std::string what;
    uint64_t layout = 0;
    static void fn(void *p) {
        ProcRun *t = (ProcRun*) p;
        std::vector<char*> argv; for (auto &a : t->args) argv.push_back(const_cast<char*>(a.c_str())); argv.push_back(nullptr);
        sim::LayoutScope scope;
        try { t->status = demo_main((int) t->args.size(), argv.data()); }
        catch (const DemoExit &e) { t->status = e.code; }
        catch (const sim::SimAbort &) { t->proc.finished = true; throw; }
        catch (const std::exception &e) { t->threw_other = true; t->what = e.what(); }
        catch (...) { t->threw_other = true; t->what = "unknown exception"; }
        { sim::IgnoreGuard ig; t->proc.finished = true; t->finished = true; }
    }
};

std::string scratch_dir;

double parse_weight(const std::string &out, bool &found) {
    size_t p = out.find("MCB weight = ");
    found = p != std::string::npos;
    if (!found) return 0;
    return strtod(out.c_str() + p + 13, nullptr);
}

class DemoEngine : public sim::Engine {
public:
    const char* name() const override { return DEMO_KIND == 1 ? "demo_mcb" : DEMO_KIND == 2 ? "demo_approx" : DEMO_KIND == 3 ? "demo_stats" : "demo_mpi"; }
    void init() override {
        sim::arena_init(); sim::cv_pool_init();
        learn_node_size<GraphD>();
        static ProcBuf ob(false, std::cout.rdbuf()), eb(true, std::cerr.rdbuf());
        std::cout.rdbuf(&ob); std::cerr.rdbuf(&eb);
        scratch_dir = std::string(getenv("VERIF_SCRATCH") ? getenv("VERIF_SCRATCH") : "build/scratch");
        mkdir(scratch_dir.c_str(), 0777);
    }
    Json generate(const std::string &prop, const std::string &tier, sim::Rng &rng, uint64_t index) override {
        (void) tier; (void) index;
        std::string p = prop; if (p == "C07") p = "C11";
        gen::GenOpts o; o.max_n = 8; o.max_m = 16; o.allow_int = false; o.max_weight = 400;
        gen::GGraph g = gen::gen_graph(rng, o);
        g.wexp = 0; for (auto &e : g.e) e.w = 1 + (e.w % 400);
        Json cs = Json::object();
        // defects of the input: loop / parallel edge / non-positive weight, alone or combined
        Json bad = Json::array();
        if (p == "C11" && rng.chance(400) && g.n >= 1) {
            int kinds = rng.chance(250) ? 2 : 1;
            for (int k = 0; k < kinds; k++) {
                int t = (int) rng.below(3);
                if (t == 0) { int v = (int) rng.below(g.n); g.e.push_back(gen::GEdge { v, v, 3, 0 }); bad.push("loop"); }
                else if (t == 1 && !g.e.empty()) { auto e = g.e[rng.below(g.e.size())]; if (rng.chance(500)) std::swap(e.u, e.v); g.e.push_back(e); bad.push("parallel"); }
                else if (!g.e.empty()) { g.e[rng.below(g.e.size())].w = rng.chance(500) ? 0 : -(int64_t) rng.range(1, 9); bad.push("nonpositive"); }
            }
            rng.shuffle(g.e);
        }
        cs["graph"] = gen::to_json(g);
        cs["bad"] = bad;
        cs["final_newline"] = !rng.chance(300);
        Json argv = Json::array();
        int algo = (int) rng.below(3);
        auto b = [&](bool v) { static const char *t[] = { "true", "1", "on", "yes" }, *f[] = { "false", "0", "off", "no" }; return std::string(v ? t[rng.below(4)] : f[rng.below(4)]); };
        if (DEMO_KIND != 3) {
            if (algo == 0) { if (rng.chance(500)) argv.push("--signed=" + b(true)); }
            else if (algo == 1) { argv.push("--signed=" + b(false)); argv.push("--fvstrees=" + b(true)); }
            else { argv.push("--signed=" + b(false)); if (rng.chance(500)) argv.push("--isotrees=" + b(true)); }
        }
        long cores = 0; bool parallel = true;
        if (DEMO_KIND == 1 || DEMO_KIND == 2) {
            if (p == "C20") { parallel = true; if (rng.chance(500)) argv.push("--parallel=" + b(true)); }
            else if (rng.chance(400)) { parallel = false; argv.push(rng.chance(500) ? "--parallel=" + b(false) : std::string("-p") + "0"); }
            else if (rng.chance(300)) argv.push("--parallel=" + b(true));
            if (p == "C20" || rng.chance(500)) { cores = rng.pick(std::vector<int> { 1, 2, 3, 4, 7 }); argv.push("--cores"); argv.push(std::to_string(cores)); }
        }
        if (DEMO_KIND == 2 && rng.chance(700)) { argv.push("--k"); argv.push(std::to_string(rng.range(2, 4))); }
        if (rng.chance(400)) argv.push(rng.chance(500) ? "-v" : "--verbose");
        if (DEMO_KIND != 3 && rng.chance(300)) argv.push("--printcycles");
        Json a2 = Json::array();        // shuffle option groups? keep order, but put the file name at a random position
        cs["argv"] = argv;
        cs["file_first"] = rng.chance(300);
        Json cfg = Json::object(), cmin = Json::object();
        cfg["P"] = DEMO_KIND == 4 ? (int) rng.pick(std::vector<int> { 1, 2, 2, 3, 4, 6 }) : 1; cmin["P"] = 1;
        cfg["W"] = rng.pick(std::vector<int> { 1, 2, 4, 8, 64 }); cmin["W"] = 1;
        cfg["split_pm"] = (int) rng.range(100, 900); cfg["steal_pm"] = (int) rng.range(100, 900); cmin["split_pm"] = 0; cmin["steal_pm"] = 0;
        if (p == "C20") cfg["W"] = 64;
        cs["cfg"] = cfg; cs["cfg_min"] = cmin;
        Json lay = Json::array(); for (int k = 0; k < 6; k++) lay.push(rng.chance(300) ? 0LL : (long long) (rng.next() >> 2)); cs["layouts"] = lay;
        cs["gen_prop"] = p;
        return cs;
    }

    void run(const Json &cs, sim::Chooser &ch, RunResult &r) override {
        std::string prop = cs.get_str("prop", "any");
        bool c07 = prop == "C07";
        if (c07 || prop == "any") prop = cs.get_str("gen_prop", "C11");
        gen::GGraph gg = gen::from_json(cs["graph"]);
        r.entry = demo_name();
        // ---- the input file
        std::string text = "c generated by the simulator\np edge " + std::to_string(gg.n) + " " + std::to_string(gg.m()) + "\n";
        for (size_t k = 0; k < gg.e.size(); k++) {
            text += "e " + std::to_string(gg.e[k].u + 1) + " " + std::to_string(gg.e[k].v + 1) + " " + std::to_string(gg.e[k].w);
            if (k + 1 < gg.e.size() || cs["final_newline"].as_bool()) text += "\n";
        }
        std::string path = scratch_dir + "/in-" + std::to_string(getpid()) + ".dimacs";
        { FILE *f = fopen(path.c_str(), "wb"); if (!f) throw std::runtime_error("cannot write " + path); fwrite(text.data(), 1, text.size(), f); fclose(f); }
        // ---- what the input is (reference)
        bool invalid = false; { std::set<std::pair<int,int>> seen; for (auto &e : gg.e) { if (e.u == e.v || e.w <= 0) invalid = true; if (!seen.insert(std::make_pair(std::min(e.u, e.v), std::max(e.u, e.v))).second) invalid = true; } }
        std::vector<std::string> args; args.push_back(demo_name());
        // an option with an implicit value (-v, --verbose, --printcycles) swallows a following
        // non-option token: never let the file name follow one
        bool file_first = cs["file_first"].as_bool();
        if (cs["argv"].size()) { std::string last = cs["argv"][cs["argv"].size() - 1].as_str(); if (last == "-v" || last == "--verbose" || last == "--printcycles") file_first = true; }
        if (file_first) args.push_back(path);
        long cores = 0, kparam = 2; bool parallel = true, verbose = false;
        const Json &av = cs["argv"];
        for (size_t k = 0; k < av.size(); k++) {
            std::string a = av[k].as_str(); args.push_back(a);
            if (a == "--cores" && k + 1 < av.size()) cores = atol(av[k + 1].as_str().c_str());
            if (a == "--k" && k + 1 < av.size()) kparam = atol(av[k + 1].as_str().c_str());
            if (a.rfind("--parallel=", 0) == 0) { std::string v = a.substr(11); parallel = (v == "true" || v == "1" || v == "on" || v == "yes"); }
            if (a == "-p0") parallel = false;
            if (a == "-v" || a == "--verbose") verbose = true;
        }
        if (!file_first) args.push_back(path);
        int P = DEMO_KIND == 4 ? (int) cs["cfg"].get_int("P", 1) : 1;
        sim::tbbcfg = sim::TbbCfg(); sim::tbbcfg.W = (int) cs["cfg"].get_int("W", 1);
        sim::tbbcfg.split_pm = (int) cs["cfg"].get_int("split_pm", 500); sim::tbbcfg.steal_pm = (int) cs["cfg"].get_int("steal_pm", 500);
        sim::tbbstats.reset(); sim::cv_pool_reset(); probes_reset();
        sim::MpiWorld world; world.P = P; sim::mpi_world = &world;
        std::vector<ProcRun> procs(P);
        for (int k = 0; k < P; k++) {
            sim::Arena *ar = sim::arena(k); ar->reset((uint64_t) cs["layouts"][k].as_int(), (uint32_t) std::max(64, gg.m() + 8));
            procs[k].proc.rank = k; procs[k].proc.nprocs = P; procs[k].proc.arena = ar; procs[k].proc.active_strands = 1;
            procs[k].args = args; world.procs.push_back(&procs[k].proc);
            ch.log.add((uint64_t) cs["layouts"][k].as_int());
        }
        sim::Sched &s = sim::Sched::get();
        sim::ProcCtx mainproc; sim::tl_proc = &mainproc;
        s.begin_run(&ch, 4000000);
        std::vector<int> tids;
        for (int k = 0; k < P; k++) tids.push_back(s.spawn(&ProcRun::fn, &procs[k], &procs[k].proc));
        for (int k = 0; k < P; k++) s.join(tids[k]);
        bool aborted = s.is_aborting(); std::string why = s.abort_reason;
        s.end_run();
        sim::tl_proc = nullptr; sim::mpi_world = nullptr;
        unlink(path.c_str());
        if (P > 1) r.fired["ranks_ge_2"]++;
        if (invalid) r.fired["invalid_input"]++;
        if (world.rank_skew) r.fired["rank_skew"] += world.rank_skew;
        if (sim::tbbstats.steals) r.fired["steal"] += sim::tbbstats.steals;
        r.sched_fp = ch.log.h;
        r.dkey = sim::mix64(sim::mix64(sim::fnv_str(text), sim::fnv_str(cs["argv"].dump())), sim::mix64(P, ch.log.h));
        r.detail["P"] = P; r.detail["invalid"] = invalid;
        std::string all_err, all_out; int finished = 0;
        for (auto &p : procs) { all_err += p.proc.err; all_out += p.proc.out; if (p.finished) finished++; }
        for (auto &p : procs) ch.log.add((uint64_t) (int64_t) p.status);
        ch.log.add_str(all_out.substr(0, 0));   // output text is not hashed (timings in -v mode)
        // ------------------------------------------------------------------ C20: --cores
        if (prop == "C20") {
            r.nontrivial = parallel && cores > 0 && !verbose;
            if (DEMO_KIND == 1 || DEMO_KIND == 2) {
                if (!invalid && !aborted && parallel && cores > 0) {
                    for (auto &rec : sim::tbbstats.region_log) if ((long) rec.limit != cores) { r.fail("demo_flag_dependent", std::string("--cores ") + std::to_string(cores) + (verbose ? " with -v" : " without -v") + ": a parallel region started with allowed parallelism " + std::to_string(rec.limit)); break; }
                    if (procs[0].proc.max_active_strands > cores) r.fail("region_limit", "more strands active than --cores allows");
                    r.fired["regions_observed"] += (long) sim::tbbstats.region_log.size();
                }
            }
            if (c07) r.classes.clear();
            return;
        }
        // ------------------------------------------------------------------ C11
        r.nontrivial = (invalid && P >= 2) || (!invalid && gg.m() - gg.n >= 0);
        if (aborted) { r.fail("hang", "the program did not terminate: " + why + " (" + std::to_string(finished) + " of " + std::to_string(P) + " processes finished) " + world.violation_msg); if (c07) r.classes.clear(); return; }
        for (auto &p : procs) if (p.threw_other) { r.fail("status", "a process died with an exception: " + p.what); if (c07) r.classes.clear(); return; }
        bool found; double printed = parse_weight(all_out, found);
        if (invalid) {
            for (int k = 0; k < P; k++) if (procs[k].status == 0) { r.fail("status", "process " + std::to_string(k) + " exited with status 0 on an input that violates the preconditions"); break; }
            if (all_err.empty()) r.fail("no_diagnostic", "nothing was written to stderr");
            if (found || all_out.find("Using ") != std::string::npos) r.fail("ran_algorithm", "an algorithm was started on an input that violates the preconditions");
        } else {
            for (int k = 0; k < P; k++) if (procs[k].status != 0) { r.fail("status", "process " + std::to_string(k) + " exited with status " + std::to_string(procs[k].status) + " on a valid input; stderr: " + all_err.substr(0, 200)); break; }
            if (DEMO_KIND == 3) { if (all_out.find("HORTON cycles:") == std::string::npos) r.fail("weight_line", "statistics are missing from the output"); }
            else if (!r.has("status")) {
                orc::Graph og = gen::to_oracle(gg);
                OptCache oc; oc.compute(og, false);
                if (!found) r.fail("weight_line", "no 'MCB weight = ' line");
                else if (oc.have) {
                    double opt = (double) (long long) oc.opt.total;
                    double tol = 1e-5 * std::max(1.0, opt);
                    if (DEMO_KIND == 2) { if (printed < opt - tol || printed > (2 * kparam - 1) * opt + tol) r.fail("weight_line", "printed " + std::to_string(printed) + ", optimum " + std::to_string(opt) + ", k=" + std::to_string(kparam)); }
                    else if (std::fabs(printed - opt) > tol) r.fail("weight_line", "printed " + std::to_string(printed) + ", optimum " + std::to_string(opt));
                }
            }
        }
        probes_collect(r);
        if (c07) r.classes.clear();
    }
    bool valid(const Json &cs) override {
        // keep the command line well formed while shrinking: a bare value may only follow --cores / --k
        const Json &av = cs["argv"];
        for (size_t k = 0; k < av.size(); k++) {
            std::string a = av[k].as_str();
            bool needs_value = (a == "--cores" || a == "--k");
            if (needs_value && (k + 1 >= av.size() || av[k + 1].as_str()[0] == '-')) return false;
            if (a[0] != '-' && (k == 0 || (av[k - 1].as_str() != "--cores" && av[k - 1].as_str() != "--k"))) return false;
        }
        return cs["graph"]["n"].as_int() >= 0;
    }
};

} // namespace

int main(int argc, char **argv) {
    DemoEngine e;
    return sim::worker_main(e, argc, argv);
}

// ------------------------------------------------------------------------------------------
// the demo itself, compiled from the working tree; only its own text is affected by the renames
#define main demo_main
#define exit sim_exit
#include DEMO_SRC
