// C08: value-preserving / value-predictable transformations of a weighted graph.  A pipeline is
// explicit data in the case; the transformed copy is re-derived from (base graph, pipeline) at
// run time, so shrinking the base graph keeps the relation meaningful.
#pragma once
#include "common.hpp"

namespace xf {

using sim::Json;
using gen::GGraph;
using gen::GEdge;

struct Derived {
    GGraph g;
    int scale_log2 = 0;          // value(g) = value(base) * 2^scale_log2 (+ addend)
    bool has_addend = false;
    GGraph addend;               // disjoint union partner, as it was when added
    int addend_scale_log2 = 0;   // scaling applied after the union
    std::string names;
};

inline Json generate(sim::Rng &rng, const GGraph &base, int max_extra) {
    Json ops = Json::array();
    int nops = (int) rng.range(1, 4);
    bool had_union = false; int subdiv = 0;
    for (int k = 0; k < nops; k++) {
        Json o = Json::object();
        int pick = (int) rng.below(100);
        if (pick < 15) { o["op"] = "vperm"; o["seed"] = (long long) (rng.next() >> 2); }
        else if (pick < 30) { o["op"] = "eperm"; o["seed"] = (long long) (rng.next() >> 2); }
        else if (pick < 40) { o["op"] = "isolated"; o["k"] = (int) rng.range(1, 3); }
        else if (pick < 55) { o["op"] = "pendant"; o["k"] = (int) rng.range(1, 4); o["seed"] = (long long) (rng.next() >> 2); }
        else if (pick < 70 && !had_union) {
            gen::GenOpts go; go.max_n = std::max(3, std::min(max_extra, 9)); go.max_m = 20; go.compose = false;
            GGraph g3 = gen::gen_graph(rng, go);
            g3.wtype = base.wtype; g3.wexp = 0;
            for (auto &e : g3.e) e.w = 1 + (e.w % 7);
            o["op"] = "union"; o["graph"] = gen::to_json(g3); had_union = true;
        }
        else if (pick < 78 && had_union) { o["op"] = "bridge"; o["seed"] = (long long) (rng.next() >> 2); }
        else if (pick < 90 && subdiv < 3) { o["op"] = "subdivide"; o["edge"] = (long long) rng.below(1000); o["part"] = (long long) rng.below(1000); subdiv++; }
        else { o["op"] = "scale"; o["j"] = (int) rng.range(-8, 8); }
        ops.push(o);
    }
    return ops;
}

inline Derived apply(const GGraph &base, const Json &ops) {
    Derived d; d.g = base;
    GGraph &g = d.g;
    for (auto &o : ops.arr()) {
        std::string op = o["op"].as_str();
        if (op == "vperm") {
            sim::Rng r((uint64_t) o["seed"].as_int());
            std::vector<int> perm(g.n); for (int i = 0; i < g.n; i++) perm[i] = i; r.shuffle(perm);
            for (auto &e : g.e) { e.u = perm[e.u]; e.v = perm[e.v]; }
            d.names += "vperm,";
        } else if (op == "eperm") {
            sim::Rng r((uint64_t) o["seed"].as_int());
            r.shuffle(g.e);
            for (auto &e : g.e) if (r.chance(500)) std::swap(e.u, e.v);
            d.names += "eperm,";
        } else if (op == "isolated") {
            g.n += (int) o["k"].as_int(); d.names += "isolated,";
        } else if (op == "pendant") {
            sim::Rng r((uint64_t) o["seed"].as_int());
            int k = (int) o["k"].as_int();
            if (g.n == 0) { g.n = 1; }
            for (int i = 0; i < k; i++) { g.e.push_back(GEdge { (int) r.below(g.n), g.n, (int64_t) r.range(1, 5), 0 }); g.n++; }
            d.names += "pendant,";
        } else if (op == "union") {
            if (d.has_addend) continue;
            GGraph g3 = gen::from_json(o["graph"]);
            g3.wtype = g.wtype; g3.wexp = g.wexp; g3.inexact = false;
            d.addend = g3; d.has_addend = true; d.addend_scale_log2 = 0;
            for (auto &e : g3.e) g.e.push_back(GEdge { e.u + g.n, e.v + g.n, e.w, 0 });
            g.n += g3.n;
            d.names += "union,";
        } else if (op == "bridge") {
            orc::UnionFind uf(std::max(1, g.n));
            for (auto &e : g.e) uf.unite(e.u, e.v);
            sim::Rng r((uint64_t) o["seed"].as_int());
            if (g.n < 2) continue;
            int a = (int) r.below(g.n), b = -1;
            for (int t = 0; t < g.n; t++) { int c = (a + 1 + t) % g.n; if (uf.find(c) != uf.find(a)) { b = c; break; } }
            if (b < 0) continue;
            g.e.push_back(GEdge { a, b, (int64_t) r.range(1, 5), 0 });
            d.names += "bridge,";
        } else if (op == "subdivide") {
            if (g.e.empty()) continue;
            size_t i = (size_t) (o["edge"].as_int() % (int64_t) g.e.size());
            int64_t part = o["part"].as_int();
            if (g.wtype == "double") {
                bool room = true; for (auto &e : g.e) if (e.w > ((int64_t) 1 << 40)) room = false;
                if (!room) continue;
                for (auto &e : g.e) e.w *= 2;
                g.wexp -= 1;
                if (d.has_addend) { /* addend value unchanged: numerators doubled, exponent lowered */ }
            }
            int64_t w = g.e[i].w;
            if (w < 2) continue;
            int64_t w1 = 1 + part % (w - 1), w2 = w - w1;
            int nv = g.n++;
            int v = g.e[i].v;
            g.e[i].v = nv; g.e[i].w = w1;
            g.e.push_back(GEdge { nv, v, w2, 0 });
            d.names += "subdivide,";
        } else if (op == "scale") {
            int j = (int) o["j"].as_int();
            if (g.wtype == "double") {
                if (g.wexp + j < -40 || g.wexp + j > 20) continue;
                g.wexp += j;
            } else {
                if (j < 0) continue;
                int64_t mx = 1; for (auto &e : g.e) mx = std::max(mx, e.w);
                int64_t lim = (int64_t) 2000000000 / std::max<int64_t>(1, (int64_t) std::max(1, g.n) * std::max<int64_t>(1, (int64_t) g.e.size()));
                if ((mx << j) > lim) continue;
                for (auto &e : g.e) e.w <<= j;
            }
            d.scale_log2 += j;
            if (d.has_addend) d.addend_scale_log2 += j;
            d.names += "scale,";
        }
    }
    if (!d.names.empty()) d.names.pop_back();
    return d;
}

} // namespace xf
