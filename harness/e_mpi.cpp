// Engine "mpi": the Boost.MPI entry points with ranks as simulator threads (DESIGN §2.4; C04),
// and - because this translation unit sees all three back-ends - the cross-variant /
// metamorphic relations of C08.
#define SIM_ARENA_DEFINE
#define SIM_SCHED_DEFINE
#define SIM_TBB_DEFINE
#define SIM_MPI_DEFINE
#include "common.hpp"

#include <parmcb/parmcb.hpp>
#include <parmcb/mpi/parmcb.hpp>

#include "probes.hpp"
#include "verdicts.hpp"
#include "xform.hpp"

using namespace hz;

namespace {

const char *MPI_ENTRIES[] = { "signed_mpi", "fvs_trees_mpi", "fvs_trees_tbb_mpi", "iso_trees_mpi", "iso_trees_tbb_mpi" };
const char *SEQ_ENTRIES[] = { "signed", "fvs_trees", "iso_trees" };
const char *TBB_ENTRIES[] = { "signed_tbb", "fvs_trees_tbb", "iso_trees_tbb" };

bool is_mpi_entry(const std::string &e) { return e.size() > 4 && e.compare(e.size() - 4, 4, "_mpi") == 0; }

template<class G, class WM, class Out>
typename boost::property_traits<WM>::value_type call_local(const std::string &entry, const G &g, WM wm, Out out) {
    if (entry == "signed") return parmcb::mcb_sva_signed(g, wm, out);
    if (entry == "fvs_trees") return parmcb::mcb_sva_fvs_trees(g, wm, out);
    if (entry == "iso_trees") return parmcb::mcb_sva_iso_trees(g, wm, out);
    if (entry == "signed_tbb") return parmcb::mcb_sva_signed_tbb(g, wm, out);
    if (entry == "fvs_trees_tbb") return parmcb::mcb_sva_fvs_trees_tbb(g, wm, out);
    if (entry == "iso_trees_tbb") return parmcb::mcb_sva_iso_trees_tbb(g, wm, out);
    throw std::runtime_error("unknown entry " + entry);
}
template<class G, class WM, class Out>
typename boost::property_traits<WM>::value_type call_mpi(const std::string &entry, const G &g, WM wm, Out out, boost::mpi::communicator &world) {
    if (entry == "signed_mpi") return parmcb::mcb_sva_signed_mpi(g, wm, out, world);
    if (entry == "fvs_trees_mpi") return parmcb::mcb_sva_fvs_trees_mpi(g, wm, out, world);
    if (entry == "fvs_trees_tbb_mpi") return parmcb::mcb_sva_fvs_trees_tbb_mpi(g, wm, out, world);
    if (entry == "iso_trees_mpi") return parmcb::mcb_sva_iso_trees_mpi(g, wm, out, world);
    if (entry == "iso_trees_tbb_mpi") return parmcb::mcb_sva_iso_trees_tbb_mpi(g, wm, out, world);
    throw std::runtime_error("unknown entry " + entry);
}

// what one execution of one entry point on one graph produced (rank 0's view for MPI)
struct EntryOut {
    std::vector<std::vector<int>> ids; bool foreign = false, stale = false;
    double ret = 0; bool aborted = false; std::string abort_why, abort_msg;
    bool threw = false; bool nonroot_emitted = false; int ranks_finished = 0;
};

template<class G> struct RankTask {
    typedef typename boost::graph_traits<G>::edge_descriptor Edge;
    const gen::GGraph *gg; std::string entry; sim::ProcCtx *proc; uint64_t layout;
    std::vector<std::vector<int>> ids; bool foreign = false, stale = false; double ret = 0; bool threw = false; bool done = false;
    static void fn(void *p) {
        RankTask *t = (RankTask*) p;
        sim::Arena *ar = t->proc->arena;
        {
            sim::LayoutScope scope;
            Built<G> b;
            b.build(*t->gg);
            auto wm = boost::get(boost::edge_weight, b.g);
            std::list<std::list<Edge>> cycles;
            boost::mpi::communicator world;
            try { t->ret = (double) call_mpi(t->entry, b.g, wm, std::back_inserter(cycles), world); }
            catch (const sim::SimAbort&) { t->proc->finished = true; throw; }
            catch (const std::exception&) { t->threw = true; }
            t->ids = cycles_to_ids(cycles, b, t->foreign, t->stale);
        }
        (void) ar;
        { sim::IgnoreGuard ig; t->proc->finished = true; t->done = true; }
    }
};

struct Cfg { int P = 1, W = 1, split_pm = 500, steal_pm = 500; std::vector<uint64_t> layouts; };

Cfg read_cfg(const Json &cs) {
    Cfg c;
    const Json &cfg = cs["cfg"];
    c.P = (int) cfg.get_int("P", 1); c.W = (int) cfg.get_int("W", 1);
    c.split_pm = (int) cfg.get_int("split_pm", 500); c.steal_pm = (int) cfg.get_int("steal_pm", 500);
    for (auto &l : cs["layouts"].arr()) c.layouts.push_back((uint64_t) l.as_int());
    while ((int) c.layouts.size() < std::max(1, c.P)) c.layouts.push_back(0);
    return c;
}

// run one entry point on gg under the scheduler; everything environment-related comes from cfg / ch
template<class G>
EntryOut run_one(const std::string &entry, const gen::GGraph &gg, const Cfg &cfg, sim::Chooser &ch, RunResult &r) {
    typedef typename boost::graph_traits<G>::edge_descriptor Edge;
    EntryOut out;
    sim::Sched &s = sim::Sched::get();
    sim::tbbcfg = sim::TbbCfg(); sim::tbbcfg.W = cfg.W; sim::tbbcfg.split_pm = cfg.split_pm; sim::tbbcfg.steal_pm = cfg.steal_pm;
    sim::tbbstats.reset(); sim::cv_pool_reset();
    uint32_t chunk = (uint32_t) std::max(64, gg.m() + 8);
    if (!is_mpi_entry(entry)) {
        sim::Arena *ar = sim::arena(0);
        ar->rechunk(cfg.layouts[0], chunk);
        sim::ProcCtx proc; proc.arena = ar; proc.active_strands = 1;
        sim::tl_proc = &proc; sim::tl_arena = ar;
        {
            sim::LayoutScope scope;
            Built<G> b; b.build(gg);
            auto wm = boost::get(boost::edge_weight, b.g);
            std::list<std::list<Edge>> cycles;
            s.begin_run(&ch, 6000000);
            try { out.ret = (double) call_local(entry, b.g, wm, std::back_inserter(cycles)); }
            catch (const sim::SimAbort&) { out.aborted = true; }
            catch (const std::exception&) { out.threw = true; }
            out.abort_why = s.abort_reason;
            s.end_run();
            out.ids = cycles_to_ids(cycles, b, out.foreign, out.stale);
        }
        sim::tl_proc = nullptr; sim::tl_arena = nullptr;
        return out;
    }
    int P = cfg.P;
    sim::MpiWorld world; world.P = P;
    sim::mpi_world = &world;
    std::vector<sim::ProcCtx> procs(P);
    std::vector<RankTask<G>> tasks(P);
    for (int k = 0; k < P; k++) {
        sim::Arena *ar = sim::arena(k);
        ar->rechunk(cfg.layouts[k], chunk);
        procs[k].rank = k; procs[k].nprocs = P; procs[k].arena = ar; procs[k].active_strands = 1;
        world.procs.push_back(&procs[k]);
        tasks[k].gg = &gg; tasks[k].entry = entry; tasks[k].proc = &procs[k]; tasks[k].layout = cfg.layouts[k];
    }
    sim::ProcCtx mainproc; sim::tl_proc = &mainproc;
    s.begin_run(&ch, 6000000);
    std::vector<int> tids;
    for (int k = 0; k < P; k++) tids.push_back(s.spawn(&RankTask<G>::fn, &tasks[k], &procs[k]));
    for (int k = 0; k < P; k++) s.join(tids[k]);
    out.aborted = s.is_aborting();
    out.abort_why = s.abort_reason;
    s.end_run();
    sim::tl_proc = nullptr;
    for (int k = 0; k < P; k++) if (tasks[k].done) out.ranks_finished++;
    out.ids = tasks[0].ids; out.foreign = tasks[0].foreign; out.stale = tasks[0].stale; out.ret = tasks[0].ret; out.threw = tasks[0].threw;
    for (int k = 1; k < P; k++) if (!tasks[k].ids.empty()) out.nonroot_emitted = true;
    if (!world.violation.empty()) { out.aborted = true; out.abort_why = world.violation; out.abort_msg = world.violation_msg; }
    else if (!out.aborted) {
        // every collective that was opened must have been entered by every rank
        for (size_t q = 0; q < world.slots.size(); q++) {
            int need = world.slots[q]->kind == sim::COLL_BCAST || world.slots[q]->kind == sim::COLL_SCATTER || world.slots[q]->kind == sim::COLL_REDUCE || world.slots[q]->kind == sim::COLL_BARRIER || world.slots[q]->kind == sim::COLL_GATHER ? P : P;
            if (world.slots[q]->arrivals != need) { out.aborted = true; out.abort_why = "rank_in_collective"; out.abort_msg = "collective #" + std::to_string(q) + " was entered by " + std::to_string(world.slots[q]->arrivals) + " of " + std::to_string(P) + " ranks"; break; }
        }
    }
    if (world.eager) r.fired["eager_collective"] += world.eager;
    if (world.synced) r.fired["sync_collective"] += world.synced;
    if (world.reduce_perm) r.fired["reduce_perm"] += world.reduce_perm;
    if (world.reduce_bracket) r.fired["reduce_bracket"] += world.reduce_bracket;
    if (world.rank_skew) r.fired["rank_skew"] += world.rank_skew;
    if (world.early_finalize) r.fired["early_finalize"] += world.early_finalize;
    if (world.reduce_two_found) r.fired["reduce_two_found"] += world.reduce_two_found;
    bool differ = false; for (int k = 1; k < P; k++) if (cfg.layouts[k] != cfg.layouts[0]) differ = true;
    if (differ) r.fired["layouts_differ_between_ranks"]++;
    r.detail["collectives"] = (long long) world.collectives;
    sim::mpi_world = nullptr;
    return out;
}

void tbb_fired(RunResult &r) {
    sim::TbbStats &t = sim::tbbstats;
    if (t.splits) r.fired["split"] += t.splits;
    if (t.steals) r.fired["steal"] += t.steals;
    if (t.join_both) r.fired["join_both_found"] += t.join_both;
    if (t.join_one) r.fired["join_one_found"] += t.join_one;
    if (t.push_other_strand) r.fired["push_interleave"] += t.push_other_strand;
}

// ------------------------------------------------------------------------------ C04
template<class G>
void run_c04(const gen::GGraph &gg, const Json &cs, sim::Chooser &ch, RunResult &r) {
    std::string entry = cs["entry"].as_str(), prop = cs.get_str("prop", "any");
    Cfg cfg = read_cfg(cs);
    r.entry = entry;
    probes_reset();
    for (auto l : cfg.layouts) ch.log.add(l);
    if (cfg.layouts[0]) r.fired["layout_perm"]++;
    Verdicts v(gg, r, prop);
    EntryOut o = run_one<G>(entry, gg, cfg, ch, r);
    tbb_fired(r);
    r.detail["P"] = cfg.P;
    if (o.aborted) {
        std::string cls = o.abort_why.empty() ? "deadlock" : o.abort_why;
        r.fail(cls, "ranks finished: " + std::to_string(o.ranks_finished) + "/" + std::to_string(cfg.P) + " " + o.abort_msg);
    } else {
        add_cycle_events(ch, o.ids);
        if (o.nonroot_emitted) r.fail("nonroot_emitted", "a rank other than 0 wrote cycles to its output iterator");
        if (o.threw) r.fail("unexpected_exception", "rank 0 threw");
        else v.judge(o.ids, o.foreign, o.stale, o.ret, false, 0);
        ch.log.add((uint64_t) (int64_t) std::llround(std::ldexp(o.ret, 20)));
    }
    bool differ = r.fired.count("layouts_differ_between_ranks") > 0;
    r.nontrivial = r.nontrivial && cfg.P >= 2 && (r.fired.count("reduce_two_found") || differ);
    r.sched_fp = ch.log.h;
    r.dkey = sim::mix64(sim::mix64(r.dkey, cfg.P), ch.log.h);
    probes_collect(r);
}

// ------------------------------------------------------------------------------ C08
struct Val { orc::W num; int shift; bool ok; };   // value = num / 2^shift
bool val_eq(Val a, Val b) {
    int s = std::max(a.shift, b.shift);
    return (a.num << (s - a.shift)) == (b.num << (s - b.shift));
}

template<class G>
bool c08_value(const std::string &entry, const gen::GGraph &gg, const Cfg &cfg, sim::Chooser &ch, RunResult &r, Val &out, const char *what) {
    EntryOut o = run_one<G>(entry, gg, cfg, ch, r);
    tbb_fired(r);
    if (o.aborted || o.threw) { r.fail(o.aborted ? (o.abort_why.empty() ? "deadlock" : o.abort_why) : "unexpected_exception", std::string(what) + " " + entry); return false; }
    int shift; gen::to_oracle(gg, &shift);
    bool ok; out.num = to_exact(o.ret, shift, ok); out.shift = shift; out.ok = ok;
    if (!ok) { r.fail("inexact_value", std::string(what) + " " + entry + " returned a value that is not a multiple of the weight unit"); return false; }
    // the cycles are cheap to verify as well (O-basis is polynomial)
    if (!o.foreign && !o.stale) { orc::Graph og = gen::to_oracle(gg); orc::Verdict bv = orc::check_basis(og, o.ids); if (!bv.ok()) r.detail["basis_note"] = bv.cls; }
    ch.log.add((uint64_t) out.num);
    return true;
}

template<class G>
void run_c08(const gen::GGraph &base, const Json &cs, sim::Chooser &ch, RunResult &r) {
    Cfg cfg = read_cfg(cs);
    r.entry = "c08";
    probes_reset();
    std::vector<std::string> entries; for (auto &e : cs["entries"].arr()) entries.push_back(e.as_str());
    std::vector<Val> vals;
    std::set<std::string> backends;
    for (auto &e : entries) {
        Val v; if (!c08_value<G>(e, base, cfg, ch, r, v, "base")) return;
        vals.push_back(v);
        backends.insert(is_mpi_entry(e) ? "mpi" : (e.find("_tbb") != std::string::npos ? "tbb" : "seq"));
    }
    for (size_t k = 1; k < vals.size(); k++)
        if (!val_eq(vals[0], vals[k])) {
            bool same_backend = is_mpi_entry(entries[0]) == is_mpi_entry(entries[k]) && (entries[0].find("_tbb") != std::string::npos) == (entries[k].find("_tbb") != std::string::npos);
            r.fail(same_backend ? "variant_disagree" : "backend_disagree", entries[0] + " = " + orc::w_str(vals[0].num) + "/2^" + std::to_string(vals[0].shift) + " but " + entries[k] + " = " + orc::w_str(vals[k].num) + "/2^" + std::to_string(vals[k].shift));
            return;
        }
    orc::Graph og = gen::to_oracle(base);
    int dim = orc::cycle_space_dim(og);
    if (og.m() <= 36 && base.n <= 10) {
        orc::Opt o = orc::mcb_bruteforce(og);
        if (o.ok && o.total != vals[0].num) { r.fail("backend_disagree", "all variants agree on " + orc::w_str(vals[0].num) + " but the optimum is " + orc::w_str(o.total)); return; }
    }
    // transformed copy and its relation
    xf::Derived d = xf::apply(base, cs["xform"]);
    std::string xe = cs.get_str("xentry", entries[0]);
    Val tv; if (!c08_value<G>(xe, d.g, cfg, ch, r, tv, "transformed")) return;
    Val expect = vals[0];
    // scale: value * 2^j
    expect.shift -= d.scale_log2;
    if (expect.shift < 0) { expect.num <<= -expect.shift; expect.shift = 0; }
    if (d.has_addend) {
        Val av; if (!c08_value<G>(entries[0], d.addend, cfg, ch, r, av, "addend")) return;
        // the addend is scaled like everything else by the pipeline steps that follow the union
        av.shift -= d.addend_scale_log2; if (av.shift < 0) { av.num <<= -av.shift; av.shift = 0; }
        int s = std::max(expect.shift, av.shift);
        expect.num = (expect.num << (s - expect.shift)) + (av.num << (s - av.shift)); expect.shift = s;
    }
    if (!val_eq(expect, tv)) r.fail("relation:" + d.names, xe + " on the transformed copy returned " + orc::w_str(tv.num) + "/2^" + std::to_string(tv.shift) + ", expected " + orc::w_str(expect.num) + "/2^" + std::to_string(expect.shift));
    r.detail["dim"] = dim; r.detail["xform"] = d.names; r.detail["n"] = base.n; r.detail["m"] = base.m();
    r.nontrivial = dim >= 2 && backends.size() >= 2;
    r.dkey = sim::mix64(gen::graph_hash(base), sim::fnv_str(cs["xform"].dump() + cs["entries"].dump()));
    r.sched_fp = ch.log.h;
    probes_collect(r);
}

class MpiEngine : public sim::Engine {
public:
    const char* name() const override { return "mpi"; }
    void init() override {
        sim::arena_init();
        sim::cv_pool_init();
        learn_node_size<GraphD>();
        learn_node_size<GraphI>();
    }
    Json generate(const std::string &prop, const std::string &tier, sim::Rng &rng, uint64_t index) override {
        (void) index;
        std::string p = prop;
        if (p == "C07") p = rng.chance(700) ? "C04" : "C08";
        bool thorough = tier == "thorough";
        gen::GenOpts o;
        Json cs = Json::object();
        Json cfg = Json::object(), cmin = Json::object();
        int P = (int) rng.pick(std::vector<int> { 1, 2, 2, 3, 3, 3, 4, 5, 6, 7, 8 });
        if (p == "C08") {
            bool big = tier == "big";
            if (big) { o.max_n = (int) rng.range(40, 300); o.max_m = (int) rng.range(o.max_n, std::min(700, o.max_n * 3)); o.compose = true; }
            else if (thorough && rng.chance(300)) { o.max_n = 30; o.max_m = 70; }
            else { o.max_n = 9; o.max_m = 30; }
            P = (int) rng.pick(std::vector<int> { 1, 2, 3, 4, 5 });
        } else if (thorough && rng.chance(250)) { o.max_n = 24; o.max_m = 60; }
        else { o.max_n = 9; o.max_m = 36; }
        o.core_sat_pm = 40;
        if (p == "C04") { o.boundary_pm = prop == "C07" ? 30 : 6; o.boundary_max_n = 129; o.dense_pm = prop == "C07" ? 3 : 8; o.mid_pm = 120; o.two_level_pm = 150; }   // dense: hundreds of candidates / cycles per rank
        gen::GGraph g = gen::gen_graph(rng, o);
        cs["graph"] = gen::to_json(g);
        cfg["P"] = P; cmin["P"] = 1;
        cfg["W"] = rng.pick(std::vector<int> { 1, 1, 2, 3, 4 }); cmin["W"] = 1;
        cfg["split_pm"] = (int) rng.range(100, 900); cfg["steal_pm"] = (int) rng.range(100, 900); cmin["split_pm"] = 0; cmin["steal_pm"] = 0;
        cs["cfg"] = cfg; cs["cfg_min"] = cmin;
        // layouts: uniform (all ranks the same permutation) or independent
        Json lay = Json::array();
        bool uniform = rng.chance(350);
        long long l0 = rng.chance(200) ? 0LL : (long long) (rng.next() >> 2);
        for (int k = 0; k < 8; k++) lay.push(uniform ? l0 : (rng.chance(120) ? 0LL : (long long) (rng.next() >> 2)));
        cs["layouts"] = lay;
        cs["layout_mode"] = uniform ? "uniform" : "independent";
        if (p == "C08") {
            Json es = Json::array();
            std::vector<std::string> all;
            for (auto e : SEQ_ENTRIES) all.push_back(e);
            for (auto e : TBB_ENTRIES) all.push_back(e);
            for (auto e : MPI_ENTRIES) all.push_back(e);
            rng.shuffle(all);
            int cnt = tier == "big" ? 3 : (int) rng.range(3, 6);
            // make sure two back-ends are present
            for (int k = 0; k < cnt; k++) es.push(all[k]);
            cs["entries"] = es;
            cs["xentry"] = all[rng.below(all.size())];
            cs["xform"] = xf::generate(rng, g, tier == "big" ? 60 : 9);
        } else { cs["entry"] = MPI_ENTRIES[rng.below(5)]; if (g.family == "mid" && rng.chance(600)) cs["entry"] = "signed_mpi"; }   // phases with 2..n-1 signed edges spread over the ranks
        cs["gen_prop"] = p;
        return cs;
    }
    void run(const Json &cs, sim::Chooser &ch, RunResult &r) override {
        gen::GGraph gg = gen::from_json(cs["graph"]);
        Json c2 = cs;
        bool c07 = cs.get_str("prop", "") == "C07";
        if (c07 && cs.has("gen_prop")) c2["prop"] = cs["gen_prop"];
        bool c08 = cs.has("entries");
        for (int k = 0; k < 8; k++) sim::arena(k)->reset(0, 64);     // once per run; entry points re-chunk
        if (gg.wtype == "int") { if (c08) run_c08<GraphI>(gg, c2, ch, r); else run_c04<GraphI>(gg, c2, ch, r); }
        else { if (c08) run_c08<GraphD>(gg, c2, ch, r); else run_c04<GraphD>(gg, c2, ch, r); }
        if (c07) { std::vector<std::string> keep; for (auto &c : r.classes) if (c == "stale_descriptor" || c == "unexpected_exception") keep.push_back(c); r.classes = keep; }
    }
};

} // namespace

int main(int argc, char **argv) {
    MpiEngine e;
    return sim::worker_main(e, argc, argv);
}
