// Shared by all graph engines: building the caller's graph inside the layout arena, mapping
// emitted edge descriptors back to edge ids by *slot identity* (never dereferencing them),
// exact weight conversions and the basis / optimum oracles applied to a library result.
#pragma once
#include <boost/graph/adjacency_list.hpp>
#include <boost/property_map/property_map.hpp>
#include <cmath>
#include <list>
#include <map>
#include <string>
#include <vector>
#include "../gen/graphs.hpp"
#include "../oracle/mcb.hpp"
#include "../sim/core/arena.hpp"
#include "../sim/core/worker.hpp"

namespace hz {

using sim::Json;
using sim::RunResult;

typedef boost::adjacency_list<boost::vecS, boost::vecS, boost::undirectedS, boost::no_property,
        boost::property<boost::edge_weight_t, double>> GraphD;
typedef boost::adjacency_list<boost::vecS, boost::vecS, boost::undirectedS, boost::no_property,
        boost::property<boost::edge_weight_t, int>> GraphI;

template<class G> struct Built {
    typedef typename boost::graph_traits<G>::edge_descriptor Edge;
    typedef typename boost::property_traits<typename boost::property_map<G, boost::edge_weight_t>::type>::value_type WT;
    G g;
    std::vector<Edge> eds;                       // by edge id
    std::map<const void*, int> slot2id;          // property address -> edge id
    void build(const gen::GGraph &gg) {
        for (int v = 0; v < gg.n; v++) boost::add_vertex(g);
        auto wm = boost::get(boost::edge_weight, g);
        for (size_t k = 0; k < gg.e.size(); k++) {
            Edge e = boost::add_edge(gg.e[k].u, gg.e[k].v, g).first;
            wm[e] = (WT) gg.weight(k);
            eds.push_back(e);
            slot2id[e.get_property()] = (int) k;
        }
    }
    // -1 foreign (not an edge slot of this graph), -2 stale (a slot that has been released)
    int id_of(const Edge &e) const {
        const void *p = e.get_property();
        auto it = slot2id.find(p);
        if (it != slot2id.end()) return it->second;
        if (p && sim::arena_owns(p) && sim::arena_of(p)->dead(p)) return -2;
        return -1;
    }
};

template<class G> inline void learn_node_size() {
    G g; boost::add_vertex(g); boost::add_vertex(g);
    size_t s = sim::arena_learn_node_size([&g] { boost::add_edge(0, 1, g); });
    if (s < 32 || s > sim::ARENA_SLOT) { fprintf(stderr, "harness: unexpected edge node size %zu\n", s); abort(); }
}

template<class Edge, class B>
inline std::vector<std::vector<int>> cycles_to_ids(const std::list<std::list<Edge>> &cycles, const B &b, bool &foreign, bool &stale) {
    std::vector<std::vector<int>> out;
    foreign = stale = false;
    for (auto &c : cycles) {
        std::vector<int> ids;
        for (auto &e : c) { int id = b.id_of(e); if (id == -1) foreign = true; if (id == -2) stale = true; ids.push_back(id); }
        out.push_back(ids);
    }
    return out;
}

// returned weight -> exact integer at scale 2^shift; ok=false when it is not an integer there
inline orc::W to_exact(double v, int shift, bool &ok) {
    double s = std::ldexp(v, shift);
    ok = std::isfinite(s) && s == std::floor(s) && std::fabs(s) < 9.0e18;
    return ok ? (orc::W) (long long) s : 0;
}

inline long double w_to_ld(orc::W v) { return (long double) v; }

struct OptCache {
    // optimum of the case's graph (brute force if in bounds, else de Pina); self-check A == B on small graphs
    orc::Opt opt; bool have = false; bool selfcheck_failed = false; std::string which;
    void compute(const orc::Graph &og, bool crosscheck) {
        // brute force enumerates every simple cycle (<= 2^dim - 1 of them): beyond dimension 16 go to de Pina at once
        // instead of enumerating up to the cap first
        opt = orc::cycle_space_dim(og) <= 16 ? orc::mcb_bruteforce(og) : orc::Opt();
        which = "A";
        if (opt.ok) {
            if (crosscheck && og.m() <= 24) {
                orc::Opt b = orc::mcb_depina(og);
                if (!b.ok || b.total != opt.total || b.weights != opt.weights) selfcheck_failed = true;
            }
        } else { opt = orc::mcb_depina(og); which = "B"; }
        have = opt.ok;
    }
};

inline void add_cycle_events(sim::Chooser &ch, const std::vector<std::vector<int>> &ids) {
    // order-insensitive inside a cycle, order-sensitive across cycles (that order is layout dependent but seeded)
    for (auto &c : ids) { std::vector<int> s = c; std::sort(s.begin(), s.end()); uint64_t h = 7; for (int id : s) h = sim::mix64(h, (uint64_t) (id + 3)); ch.log.add(h); }
}

} // namespace hz
