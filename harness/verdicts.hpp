// Oracles applied to what an entry point handed back (DESIGN §3, §5).  Which groups of
// classes count is decided by the property the run was generated for:
//   basis  : foreign_edge stale_descriptor empty_cycle repeated_edge not_simple_cycle count dependent
//   retval : retval_mismatch  (returned value vs. caller-weight of the emitted cycles)
//   opt    : nonminimal weight_list no_result       (exact variants)
//   ratio  : ratio_exceeded k1_nonminimal k0_not_rejected k0_emitted   (approximate variants)
#pragma once
#include <set>
#include "common.hpp"
#include "probes.hpp"

namespace hz {

struct Verdicts {
    const gen::GGraph &gg;
    RunResult &r;
    std::set<std::string> groups;
    orc::Graph og;
    int shift = 0;
    OptCache oc;
    Json other = Json::array();

    Verdicts(const gen::GGraph &gg, RunResult &r, const std::string &prop) : gg(gg), r(r) {
        og = gen::to_oracle(gg, &shift);
        r.detail["domain"] = gg.inexact ? "inexact" : "exact";
        // reach: input sizes beyond the constants (32, 64, 100, 256, ...) an implementation may hard-code
        if (gg.n > 32) r.fired["input_n_gt32"]++;
        if (gg.n > 64) r.fired["input_n_gt64"]++;
        if (gg.m() > 64) r.fired["input_m_gt64"]++;
        if (gg.m() > 100) r.fired["input_m_gt100"]++;
        if (prop == "C01") groups = { "basis" };
        else if (prop == "C02") groups = { "retval", "opt" };
        else if (prop == "C05") groups = { "basis", "retval" };
        else if (prop == "C06") groups = { "ratio" };
        else if (prop == "C09") groups = { "basis", "retval", "opt" };
        else groups = { "basis", "retval", "opt", "ratio" };   // C03, C04, C07, C08, any
    }

    void flag(const std::string &group, const std::string &cls, const std::string &msg) {
        if (groups.count(group)) r.fail(cls, msg);
        else { other.push(cls); r.detail["other"] = other; }
    }

    void k0(bool threw, size_t emitted) {
        r.dkey = sim::mix64(gen::graph_hash(gg), sim::fnv_str(r.entry + "/k0"));
        r.nontrivial = gg.m() > 0;
        if (!threw) flag("ratio", "k0_not_rejected", "k = 0 did not throw");
        if (emitted) flag("ratio", "k0_emitted", "k = 0 emitted " + std::to_string(emitted) + " cycles");
    }

    // ids: emitted cycles as edge ids (-1 foreign / -2 stale); ret: returned weight
    void judge(const std::vector<std::vector<int>> &ids, bool foreign, bool stale, double ret, bool approx, size_t k,
            bool need_opt = true) {
        int dim = orc::cycle_space_dim(og);
        r.dkey = sim::mix64(gen::graph_hash(gg), sim::fnv_str(r.entry + "/" + std::to_string(approx ? k : 0)));
        r.detail["dim"] = dim;
        if (dim > 32) r.fired["input_dim_gt32"]++;
        if (dim > 64) r.fired["input_dim_gt64"]++;
        // ---------------------------------------------------------------- basis
        bool basis_ok = false;
        if (stale) flag("basis", "stale_descriptor", "an emitted edge descriptor refers to a released edge slot");
        else if (foreign) flag("basis", "foreign_edge", "an emitted edge descriptor is not an edge of the caller's graph");
        else {
            orc::Verdict bv = orc::check_basis(og, ids);
            if (!bv.ok()) flag("basis", bv.cls, bv.msg); else basis_ok = true;
        }
        // ---------------------------------------------------------------- returned value
        orc::W S = 0; bool have_S = !foreign && !stale;
        std::vector<orc::W> cw;
        if (have_S) for (auto &c : ids) { orc::W w = orc::cycle_weight(og, c); cw.push_back(w); S += w; }
        if (have_S) {
            if (!gg.inexact) {
                bool ok; orc::W re = to_exact(ret, shift, ok);
                if (!ok || re != S) flag("retval", "retval_mismatch", "returned " + std::to_string(ret) + " emitted " + orc::w_str(S) + "/2^" + std::to_string(shift));
            } else {
                long double s = std::ldexp(w_to_ld(S), -shift);
                if (!(std::fabs((long double) ret - s) <= 1e-9L * s)) {
                    if (ret > 1e300) flag("opt", "no_result", "returned the not-found sentinel");
                    flag("retval", "retval_mismatch", "returned " + std::to_string(ret) + " emitted " + std::to_string((double) s));
                }
            }
        }
        // ---------------------------------------------------------------- optimum / ratio
        if (!need_opt || !basis_ok || !have_S) { r.detail["opt_checked"] = false; finish(dim, approx); return; }
        if (og.m() > 420) { r.detail["opt_checked"] = false; finish(dim, approx); return; }
        oc.compute(og, true);
        if (oc.selfcheck_failed) throw std::runtime_error("oracle self-check: brute force and de Pina disagree");
        if (!oc.have) { r.detail["opt_checked"] = false; finish(dim, approx); return; }
        r.detail["opt_checked"] = true; r.detail["oracle"] = oc.which;
        const orc::Opt &o = oc.opt;
        if (S < o.total) throw std::runtime_error("oracle error: a valid basis lighter than the oracle optimum");
        if (!approx) {
            if (!gg.inexact) {
                if (S != o.total) flag("opt", "nonminimal", "emitted " + orc::w_str(S) + " optimum " + orc::w_str(o.total) + " (scale 2^" + std::to_string(shift) + ")");
                else { std::sort(cw.begin(), cw.end()); if (cw != o.weights) flag("opt", "weight_list", "sorted cycle weights differ from the minimum basis' weight vector"); }
            } else {
                // within relative 1e-9 of the true minimum
                long double diff = w_to_ld(S - o.total);
                if (diff > 1e-9L * w_to_ld(o.total)) flag("opt", "nonminimal", "emitted exceeds the exact-rational optimum by more than 1e-9 relative");
            }
        } else {
            if (k == 1 && S != o.total) flag("ratio", "k1_nonminimal", "k = 1 emitted " + orc::w_str(S) + " optimum " + orc::w_str(o.total));
            if (k >= 1 && S > (orc::W) (2 * k - 1) * o.total) flag("ratio", "ratio_exceeded", "emitted " + orc::w_str(S) + " > (2k-1) x " + orc::w_str(o.total) + " with k=" + std::to_string(k));
        }
        finish(dim, approx);
    }

    void finish(int dim, bool approx) {
        if (!approx) {
            bool both = probe_value(parmcb::verif::signed_all_vertices) > 0 && probe_value(parmcb::verif::signed_hidden_edges) > 0;
            r.nontrivial = dim >= 2 && (!oc.have || oc.opt.has_tie || both || oc.which == "B");
        } else {
            long dropped = probe_value(parmcb::verif::approx_non_spanner_cycle);
            r.detail["dropped_edges"] = (long long) dropped;
            r.nontrivial = dropped >= 1 && dim - dropped >= 1;
        }
    }
};

} // namespace hz
