// Engine "seq": sequential exact and approximate entry points, single task, the only live
// environment dimension is the heap layout of edge nodes (DESIGN §5: C01 C02 C05 C06 C09 C15,
// and the sanitizer verdict over these runs for C07).
#define SIM_ARENA_DEFINE
#define SIM_SCHED_DEFINE
#define SIM_TBB_DEFINE
#include "common.hpp"

#include <parmcb/parmcb_sva_signed.hpp>
#include <parmcb/parmcb_sva_trees.hpp>
#include <parmcb/parmcb_approx_sva_signed.hpp>
#include <parmcb/parmcb_approx_sva_trees.hpp>

#include "probes.hpp"
#include "verdicts.hpp"
#include "spanner_check.hpp"

using namespace hz;

namespace {

const char *EXACT[] = { "signed", "fvs_trees", "iso_trees" };
const char *APPROX[] = { "approx_signed", "approx_fvs_trees", "approx_iso_trees" };

template<class G, class WM, class Out>
typename boost::property_traits<WM>::value_type call_entry(const std::string &entry, const G &g, WM wm, size_t k, Out out) {
    if (entry == "signed") return parmcb::mcb_sva_signed(g, wm, out);
    if (entry == "fvs_trees") return parmcb::mcb_sva_fvs_trees(g, wm, out);
    if (entry == "iso_trees") return parmcb::mcb_sva_iso_trees(g, wm, out);
    if (entry == "approx_signed") return parmcb::approx_mcb_sva_signed(g, wm, k, out);
    if (entry == "approx_fvs_trees") return parmcb::approx_mcb_sva_fvs_trees(g, wm, k, out);
    if (entry == "approx_iso_trees") return parmcb::approx_mcb_sva_iso_trees(g, wm, k, out);
    throw std::runtime_error("unknown entry " + entry);
}

template<class G>
void run_typed(const gen::GGraph &gg, const Json &cs, sim::Chooser &ch, RunResult &r) {
    typedef typename boost::graph_traits<G>::edge_descriptor Edge;
    typedef typename Built<G>::WT WT;
    std::string entry = cs["entry"].as_str(), prop = cs.get_str("prop", "any");
    size_t k = (size_t) cs["cfg"].get_int("k", 1);
    uint64_t layout = (uint64_t) cs["layouts"][0].as_int();
    bool approx = entry.rfind("approx_", 0) == 0;
    r.entry = entry;

    sim::Arena *ar = sim::arena(0);
    ar->reset(layout, (uint32_t) std::max(64, gg.m() + 8));
    sim::tl_arena = ar;
    probes_reset();
    if (layout) r.fired["layout_perm"]++;
    ch.log.add(layout);

    Verdicts v(gg, r, prop);
    {
        sim::LayoutScope scope;
        Built<G> b;
        b.build(gg);
        auto wm = boost::get(boost::edge_weight, b.g);

        if (prop == "C15") {
            check_spanner<G>(b, gg, k, r);
        } else {
            std::list<std::list<Edge>> cycles;
            WT ret = WT();
            bool threw = false;
            try {
                ret = call_entry(entry, b.g, wm, k, std::back_inserter(cycles));
            } catch (const std::exception &) {
                threw = true;
            }
            // ---- history: call -> return -> the caller inspects what it was handed
            bool foreign, stale;
            std::vector<std::vector<int>> ids = cycles_to_ids(cycles, b, foreign, stale);
            add_cycle_events(ch, ids);
            if (approx && k == 0) v.k0(threw, ids.size());
            else if (threw) r.fail("unexpected_exception", "entry point threw on a valid input");
            else v.judge(ids, foreign, stale, (double) ret, approx, k);
            ch.log.add((uint64_t) (int64_t) std::llround(std::ldexp((double) ret, 20)));
        }
    }
    if (ar->exhausted) r.fired["arena_exhausted"] += ar->exhausted;
    probes_collect(r);
    sim::tl_arena = nullptr;
}

class SeqEngine : public sim::Engine {
public:
    const char* name() const override { return "seq"; }
    void init() override {
        sim::arena_init();
        learn_node_size<GraphD>();
        learn_node_size<GraphI>();
    }
    Json generate(const std::string &prop, const std::string &tier, sim::Rng &rng, uint64_t index) override {
        (void) index;
        gen::GenOpts o;
        std::string p = prop;
        if (p == "C07") p = rng.pick(std::vector<std::string> { "C01", "C02", "C05", "C06", "C09", "C15" });
        bool thorough = tier == "thorough";
        bool approx = (p == "C05" || p == "C06" || p == "C15");
        if (p == "C09") { o.inexact = true; o.allow_int = false; }
        if (thorough && rng.chance(p == "C09" ? 0 : 350)) { o.max_n = approx ? 24 : 40; o.max_m = approx ? 60 : 110; }
        else { o.max_n = 9; o.max_m = 36; }
        if (approx && rng.chance(500)) { o.max_n = std::max(o.max_n, 8); }
        if (approx && rng.chance(400)) { o.max_n = std::max(o.max_n, (int) rng.range(10, 18)); o.max_m = std::max(o.max_m, 40); o.heavy_tail_pm = 1000; }
        if (!approx && p != "C09") { o.core_sat_pm = 30; o.multi_pm = 40; }
        if (approx) o.hubs_pm = p == "C06" ? 300 : 150;
        if (p != "C09") { o.boundary_pm = prop == "C07" ? 25 : 8; o.boundary_max_n = 129; }
        if (p != "C09") o.dense_pm = approx ? 3 : 5;
        if (p != "C09") o.subdiv_pm = approx ? 4 : 10;
        if (!approx && p != "C09") { o.mid_pm = p == "C02" ? 400 : 250; o.two_level_pm = 200; o.small_dense_pm = 50; }      // 13..17 vertices, nearly complete: dimension 60..120, candidate lists in the hundreds
        gen::GGraph g = gen::gen_graph(rng, o);
        // magnitude family (C02 only): the same numerators at 2^-70..2^-55 or 2^40; sums stay exact, the optimum scales with them
        if (p == "C02" && g.wtype == "double" && !g.inexact && rng.chance(60)) g.wexp += (int) rng.pick(std::vector<int> { -70, -60, -55, 40 });
        Json cs = Json::object();
        cs["graph"] = gen::to_json(g);
        int k = 1;
        if (approx) {
            cs["entry"] = APPROX[rng.below(3)];
            k = (int) rng.pick(std::vector<int> { 1, 1, 1, 2, 2, 2, 3, 3, 4, 5 });
            if (g.family == "hubs") k = (int) rng.pick(std::vector<int> { 2, 2, 2, 3 });    // 2k-1 hops just cover the light gadgets
            if (p == "C06" && rng.chance(80)) k = 0;
        } else { cs["entry"] = EXACT[rng.below(3)]; if ((g.family == "small_dense" || g.family == "mid") && rng.chance(p == "C02" ? 700 : 500)) cs["entry"] = "signed"; }
        if (g.family == "subdivided" && g.n > 90 && !approx && cs["entry"].as_str() == "iso_trees") cs["entry"] = rng.chance(500) ? "signed" : "fvs_trees";   // iso_trees: ~n^3 under ASan
        if (g.family == "subdivided" && g.n > 90 && approx && cs["entry"].as_str() == "approx_iso_trees") cs["entry"] = rng.chance(500) ? "approx_signed" : "approx_fvs_trees";
        Json cfg = Json::object(); cfg["k"] = k; cs["cfg"] = cfg;
        Json cmin = Json::object(); cmin["k"] = (k == 0 ? 0 : 1); cs["cfg_min"] = cmin;
        Json lay = Json::array(); lay.push(rng.chance(250) ? 0LL : (long long) (rng.next() >> 2)); cs["layouts"] = lay;
        cs["gen_prop"] = p;
        return cs;
    }
    void run(const Json &cs, sim::Chooser &ch, RunResult &r) override {
        gen::GGraph gg = gen::from_json(cs["graph"]);
        Json c2 = cs;
        if (cs.get_str("prop", "") == "C07" && cs.has("gen_prop")) c2["prop"] = cs["gen_prop"];   // C07 rides on the other workloads
        if (gg.wtype == "int") run_typed<GraphI>(gg, c2, ch, r); else run_typed<GraphD>(gg, c2, ch, r);
        if (cs.get_str("prop", "") == "C07") {
            // only what C07 itself states: nothing handed back refers to released storage
            std::vector<std::string> keep;
            for (auto &c : r.classes) if (c == "stale_descriptor" || c == "unexpected_exception") keep.push_back(c);
            r.classes = keep;
        }
    }
    bool valid(const Json &cs) override {
        // k = 0 cases must stay k = 0, k >= 1 cases stay >= 1 (cfg_min takes care); graphs stay simple by construction
        return cs["graph"]["n"].as_int() >= 0;
    }
};

} // namespace

int main(int argc, char **argv) {
    SeqEngine e;
    return sim::worker_main(e, argc, argv);
}
