// Reach probes (hook 1, /repo include/parmcb/detail/verif.hpp): reset before a run, collect after.
#pragma once
#include <parmcb/detail/verif.hpp>
#include "../sim/core/worker.hpp"

namespace hz {

#ifdef PARMCB_VERIF
inline const char* probe_name(int k) {
    static const char *names[] = { "signed_all_vertices", "signed_hidden_edges", "signed_single_edge", "dijkstra_duplicate_edge",
        "dijkstra_limit_prune", "trees_candidate_repeated_edge", "trees_candidate_limit_prune", "iso_bad_class", "iso_partner_lookup",
        "mpi_signed_single_edge", "mpi_signed_hidden_edges", "mpi_signed_all_vertices", "approx_exact_phase_cycle", "approx_non_spanner_cycle" };
    return k < (int) (sizeof names / sizeof *names) ? names[k] : nullptr;
}
inline void probes_reset() { for (int k = 0; k < parmcb::verif::max_probes; k++) parmcb::verif::probe_table()[k] = 0; }
inline void probes_collect(sim::RunResult &r) {
    for (int k = 0; k < parmcb::verif::max_probes; k++) {
        unsigned long v = __atomic_load_n(&parmcb::verif::probe_table()[k], __ATOMIC_RELAXED);
        if (v && probe_name(k)) r.probes[probe_name(k)] += (long) v;
    }
}
inline long probe_value(int k) { return (long) __atomic_load_n(&parmcb::verif::probe_table()[k], __ATOMIC_RELAXED); }
#else
inline void probes_reset() {}
inline void probes_collect(sim::RunResult&) {}
inline long probe_value(int) { return 0; }
#endif

} // namespace hz
