// Workload generation: graph families, weight schemes, representation shuffles (DESIGN §4).
// A generated graph is explicit data (it goes into the case / replay file), never a seed.
#pragma once
#include <algorithm>
#include <array>
#include <cmath>
#include <cstdint>
#include <cstring>
#include <set>
#include <string>
#include <vector>
#include "../sim/core/chooser.hpp"
#include "../sim/core/json.hpp"
#include "../oracle/mcb.hpp"

namespace gen {

using sim::Json;
using sim::Rng;

// weight of edge = w * 2^wexp (exact domain), or the double whose bit pattern is wbits (inexact)
struct GEdge { int u, v; int64_t w; uint64_t wbits; };
struct GGraph {
    int n = 0;
    std::vector<GEdge> e;
    int wexp = 0;
    bool inexact = false;          // weights are arbitrary doubles given by wbits
    std::string wtype = "double";  // "double" | "int"
    std::string family;
    bool heavy_tail = false;       // generation hint only: use the bimodal weight scheme instead of all-unit

    double weight(size_t k) const {
        if (inexact) { double d; memcpy(&d, &e[k].wbits, 8); return d; }
        return std::ldexp((double) e[k].w, wexp);
    }
    int m() const { return (int) e.size(); }
};

inline std::string hex64(uint64_t v) { char b[32]; snprintf(b, sizeof b, "0x%016llx", (unsigned long long) v); return b; }

inline Json to_json(const GGraph &g) {
    Json j = Json::object();
    j["n"] = g.n;
    Json es = Json::array();
    for (auto &e : g.e) {
        Json t = Json::array(); t.push(e.u); t.push(e.v);
        if (g.inexact) t.push(hex64(e.wbits)); else t.push((long long) e.w);
        es.push(t);
    }
    j["edges"] = es;
    j["wexp"] = g.wexp;
    j["inexact"] = g.inexact;
    j["wtype"] = g.wtype;
    j["family"] = g.family;
    return j;
}
inline GGraph from_json(const Json &j) {
    GGraph g;
    g.n = (int) j["n"].as_int();
    g.wexp = (int) j.get_int("wexp", 0);
    g.inexact = j.has("inexact") && j["inexact"].as_bool();
    g.wtype = j.get_str("wtype", "double");
    g.family = j.get_str("family", "");
    for (auto &t : j["edges"].arr()) {
        GEdge e { (int) t[0].as_int(), (int) t[1].as_int(), 1, 0 };
        if (t[2].is_str()) e.wbits = strtoull(t[2].as_str().c_str(), nullptr, 16); else e.w = t[2].as_int();
        g.e.push_back(e);
    }
    return g;
}

// exact integer view for the oracles.  Exact domain: numerators (common scale 2^wexp).
// Inexact domain: every double is decomposed exactly and scaled by 2^shift.
inline orc::Graph to_oracle(const GGraph &g, int *shift_out = nullptr) {
    orc::Graph o; o.n = g.n;
    if (!g.inexact) {
        for (auto &e : g.e) o.e.push_back(orc::Edge { e.u, e.v, (orc::W) e.w });
        if (shift_out) *shift_out = -g.wexp;
        return o;
    }
    int minexp = 10000;
    std::vector<std::pair<int64_t,int>> parts;
    for (size_t k = 0; k < g.e.size(); k++) {
        int ex; double fr = std::frexp(g.weight(k), &ex);          // w = fr * 2^ex, fr in [0.5,1)
        int64_t mant = (int64_t) std::ldexp(fr, 53);               // exact
        parts.emplace_back(mant, ex - 53);
        if (mant != 0) minexp = std::min(minexp, ex - 53);
    }
    for (size_t k = 0; k < g.e.size(); k++) {
        orc::W v = (orc::W) parts[k].first;
        int sh = parts[k].second - minexp;
        if (sh > 60) sh = 60;   // outside the stated dynamic range; harness never generates it
        v <<= sh;
        o.e.push_back(orc::Edge { g.e[k].u, g.e[k].v, v });
    }
    if (shift_out) *shift_out = -minexp;
    return o;
}

inline uint64_t graph_hash(const GGraph &g) {
    // canonical under edge order and endpoint order (not under relabelling)
    std::vector<std::array<uint64_t,3>> es;
    for (size_t k = 0; k < g.e.size(); k++) {
        uint64_t a = std::min(g.e[k].u, g.e[k].v), b = std::max(g.e[k].u, g.e[k].v);
        es.push_back({ a, b, g.inexact ? g.e[k].wbits : (uint64_t) g.e[k].w });
    }
    std::sort(es.begin(), es.end());
    uint64_t h = sim::mix64(g.n, g.wexp + 1000);
    for (auto &t : es) { h = sim::mix64(h, t[0]); h = sim::mix64(h, t[1]); h = sim::mix64(h, t[2]); }
    return sim::mix64(h, g.wtype == "int");
}

// ------------------------------------------------------------------ structure families
typedef std::vector<std::pair<int,int>> EL;

inline void add_e(EL &el, int u, int v) { if (u != v) el.emplace_back(u, v); }

inline int fam_gnp(Rng &r, int n, double p, EL &el) {
    for (int u = 0; u < n; u++) for (int v = u + 1; v < n; v++) if (r.unit() < p) add_e(el, u, v);
    return n;
}
inline int fam_grid(int a, int b, bool torus, EL &el) {
    auto id = [&](int i, int j) { return i * b + j; };
    for (int i = 0; i < a; i++) for (int j = 0; j < b; j++) {
        if (j + 1 < b) add_e(el, id(i, j), id(i, j + 1)); else if (torus && b > 2) add_e(el, id(i, j), id(i, 0));
        if (i + 1 < a) add_e(el, id(i, j), id(i + 1, j)); else if (torus && a > 2) add_e(el, id(i, j), id(0, j));
    }
    return a * b;
}
inline int fam_hypercube(int d, EL &el) {
    int n = 1 << d;
    for (int u = 0; u < n; u++) for (int b = 0; b < d; b++) if (!(u >> b & 1)) add_e(el, u, u | (1 << b));
    return n;
}
inline int fam_complete(int n, EL &el) { for (int u = 0; u < n; u++) for (int v = u + 1; v < n; v++) add_e(el, u, v); return n; }
inline int fam_bipartite(int a, int b, EL &el) { for (int u = 0; u < a; u++) for (int v = 0; v < b; v++) add_e(el, u, a + v); return a + b; }
inline int fam_wheel(int n, EL &el) {  // hub 0, rim 1..n-1
    for (int i = 1; i < n; i++) { add_e(el, 0, i); if (n > 3 || i < n - 1) add_e(el, i, i + 1 < n ? i + 1 : 1); }
    return n;
}
inline int fam_prism(int k, bool moebius, EL &el) {  // two k-cycles joined by rungs
    for (int i = 0; i < k; i++) {
        int j = (i + 1) % k;
        if (moebius && j == 0) { add_e(el, i, k); add_e(el, k + i, 0); }
        else { add_e(el, i, j); add_e(el, k + i, k + j); }
        add_e(el, i, k + i);
    }
    return 2 * k;
}
inline int fam_petersen(int k, int s, EL &el) {  // generalised Petersen GP(k,s)
    for (int i = 0; i < k; i++) { add_e(el, i, (i + 1) % k); add_e(el, i, k + i); add_e(el, k + i, k + (i + s) % k); }
    return 2 * k;
}
inline int fam_cycle_chords(Rng &r, int n, int chords, EL &el) {
    for (int i = 0; i < n; i++) add_e(el, i, (i + 1) % n);
    for (int c = 0; c < chords; c++) { int u = (int) r.below(n), v = (int) r.below(n); add_e(el, u, v); }
    return n;
}
inline int fam_tree(Rng &r, int n, EL &el) { for (int v = 1; v < n; v++) add_e(el, (int) r.below(v), v); return n; }
inline int fam_cactus(Rng &r, int blocks, EL &el) {
    int n = 1;
    for (int b = 0; b < blocks; b++) {
        int at = (int) r.below(n), len = (int) r.range(2, 5);
        if (len == 2) { add_e(el, at, n); n++; continue; }   // a bridge
        int first = n;
        for (int i = 0; i < len - 1; i++) { add_e(el, i == 0 ? at : n - 1, n); n++; }
        add_e(el, n - 1, at); (void) first;
    }
    return n;
}
inline int fam_theta(Rng &r, int paths, int maxlen, EL &el) {  // two terminals joined by several paths: many equal-length alternatives
    int n = 2;
    bool direct = false;
    for (int p = 0; p < paths; p++) {
        int len = (int) r.range(1, maxlen);
        if (len == 1) { if (direct) len = 2; else direct = true; }
        int prev = 0;
        for (int i = 0; i < len - 1; i++) { add_e(el, prev, n); prev = n; n++; }
        add_e(el, prev, 1);
    }
    return n;
}

// hubs joined by heavy edges, many light multi-hop gadgets between them and slightly heavier chords
// that a (2k-1)-spanner drops: the heavy hub edge enters the spanner late, so any mistake in how a
// dropped edge's cycle is closed pays the heavy edge again and again - approximation ratios get tight
inline int fam_hubs(Rng &r, int max_n, EL &el, std::vector<int64_t> &w) {
    int hubs = (int) r.range(2, 3);
    int n = hubs;
    int64_t H = r.pick(std::vector<int> { 50, 400, 1000 });
    for (int h = 1; h < hubs; h++) { el.emplace_back(0, h); w.push_back(r.range(H / 2, H)); }
    int gadgets = (int) r.range(3, 6);
    int commonL = r.chance(600) ? (int) r.range(2, 4) : 0;
    for (int gk = 0; gk < gadgets && n + 4 <= max_n; gk++) {
        int t = (int) r.below(hubs), x = (t + 1 + (int) r.below(hubs - 1)) % hubs;
        int L = commonL ? commonL : (int) r.range(2, 4);               // light path s .. t with L edges
        int s0 = n++;
        int prev = s0; int64_t mx = 1;
        for (int i = 0; i < L - 1 && n < max_n; i++) { el.emplace_back(prev, n); int64_t ww = r.range(1, 3); mx = std::max(mx, ww); w.push_back(ww); prev = n++; }
        el.emplace_back(prev, t); { int64_t ww = r.range(1, 3); mx = std::max(mx, ww); w.push_back(ww); }
        if (r.chance(850)) { el.emplace_back(s0, x); w.push_back(r.range(1, 3)); }          // light edge to the other hub
        if (r.chance(850)) { if (r.chance(500)) el.emplace_back(s0, t); else el.emplace_back(t, s0); w.push_back(mx + r.range(0, 2)); }   // chord, either orientation
    }
    return n;
}

inline void dedup(EL &el) {
    std::set<std::pair<int,int>> seen; EL out;
    for (auto &p : el) {
        if (p.first == p.second) continue;
        auto k = std::make_pair(std::min(p.first, p.second), std::max(p.first, p.second));
        if (seen.insert(k).second) out.push_back(p);
    }
    el.swap(out);
}

struct GenOpts {
    int max_n = 9;
    int max_m = 36;
    bool allow_int = true;
    bool inexact = false;
    bool compose = true;
    int64_t max_weight = 1 << 20;
    int multi_pm = 0;              // per-mille: several small components (triangles, squares, K4, edges, isolated vertices)
    int big_core_pm = 0;           // per-mille: core of 9..12 vertices (support vectors reach |V| entries: all-vertices strategy)
    int core_sat_pm = 0;           // per-mille: force the dense-core-plus-satellites family
    int wide_pm = 0;               // per-mille: 18..26 vertices, dimension 17..30 (work lists longer than typical block sizes)
    int hubs_pm = 0;               // per-mille: the 'hubs' family with its own structural weights
    int heavy_tail_pm = 0;         // per-mille: bimodal weights (few very heavy edges) replace the all-unit scheme
    int boundary_pm = 0;           // per-mille: a sparse graph whose size sits on a power-of-two boundary
    int boundary_max_n = 257;
    int mid_pm = 0;                // per-mille: 10..15 vertices, m <= 2.4 n (dimension 5..20: support vectors with 4..n-1 signed edges,
                                   // the hidden-edge strategy of the signed search; several candidate cycles close in weight)
    int two_level_pm = 0;          // per-mille: two-level weights (20-40 % of the edges in H..2H with H = 5..10, the rest 1..3): many near ties
    int small_dense_pm = 0;        // per-mille: 6..9 vertices, m = n+4..n+12 random pairs, two-level weights: many light cycles close in weight,
                                   // support vectors with 4..n-1 signed edges, heavy edges at least as heavy as whole light cycles
    int subdiv_pm = 0;             // per-mille: a small skeleton (dimension 1..6) whose edges are subdivided into chains of up to 40
                                   // edges (n up to ~210): cycles of 60..200 edges, i.e. far longer than any support vector
    int dense_pm = 0;              // per-mille: 13..17 vertices, (nearly) complete: candidate lists of the tree variants reach
                                   // 300..1800 entries, beyond the grain / block sizes (256, 1000) parallel code typically uses
};

inline int gen_structure(Rng &r, int max_n, EL &el, std::string &family, bool force_core = false, bool big_core = false, bool force_multi = false) {
    int n = 0;
    int pick = (int) r.below(100);
    if (force_multi) pick = 97;
    if (big_core) { force_core = true; force_multi = false; }
    if (force_core && (max_n >= 7 || big_core)) pick = 96;
    int nn = (int) r.range(std::min(3, max_n), max_n);
    if (pick < 30) {
        double p = r.chance(300) ? r.unit() : (r.chance(500) ? 0.25 + 0.5 * r.unit() : 0.7 + 0.3 * r.unit());
        n = fam_gnp(r, nn, p, el); family = "gnp";
    } else if (pick < 38) {
        int a = (int) r.range(2, std::max(2, (int) std::sqrt((double) max_n) + 1)), b = std::max(2, std::min(max_n / a, (int) r.range(2, 6)));
        n = fam_grid(a, b, false, el); family = "grid";
    } else if (pick < 43) {
        int a = 3, b = std::max(3, std::min(max_n / 3, (int) r.range(3, 5)));
        if (a * b > max_n) { n = fam_grid(2, std::max(2, max_n / 2), false, el); family = "grid"; }
        else { n = fam_grid(a, b, true, el); family = "torus"; }
    } else if (pick < 49) {
        int d = 2; while ((1 << (d + 1)) <= max_n && d < 5 && r.chance(600)) d++;
        n = fam_hypercube(d, el); family = "hypercube";
    } else if (pick < 57) { n = fam_complete(std::min(nn, 9 > max_n ? max_n : std::max(9, std::min(max_n, 12))), el); family = "complete";
    } else if (pick < 64) {
        int a = (int) r.range(2, std::max(2, max_n / 2)), b = (int) r.range(2, std::max(2, max_n - a));
        n = fam_bipartite(a, b, el); family = "bipartite";
    } else if (pick < 70) { n = fam_wheel(std::max(4, nn), el); family = "wheel";
    } else if (pick < 76) { int k = std::max(3, nn / 2); n = fam_prism(k, r.chance(300), el); family = "prism";
    } else if (pick < 81) { int k = std::max(5, nn / 2); n = fam_petersen(k, (int) r.range(2, std::max(2, k / 2)), el); family = "petersen";
    } else if (pick < 88) { n = fam_cycle_chords(r, std::max(3, nn), (int) r.range(0, std::max(1, nn / 2)), el); family = "cycle_chords";
    } else if (pick < 92) { n = fam_cactus(r, (int) r.range(1, std::max(1, max_n / 3)), el); family = "cactus";
    } else if (pick < 96) { n = fam_theta(r, (int) r.range(2, 4), std::max(2, max_n / 3), el); family = "theta";
    } else if (pick < 97 && (max_n >= 7 || big_core)) {
        // dense core (complete or nearly complete: the signed algorithms switch to the all-vertices strategy
        // once a support vector has >= |V| entries) plus satellites that lie on no cycle and get ADJACENT
        // indices: runs of searches that find nothing, next to each other
        int sat = (int) r.range(2, 4), core = std::max(4, std::min(max_n - sat, (int) r.range(5, 8)));
        if (big_core) core = (int) r.range(7, 12);
        int at = r.chance(500) ? 0 : (int) r.range(1, 2);                  // satellites first / in the middle / last
        std::vector<int> id;                        // id[k] = index of core vertex k
        int first_sat = at == 0 ? 0 : at == 1 ? core / 2 : core;
        for (int k = 0; k < core; k++) id.push_back(k < first_sat ? k : k + sat);
        for (int a = 0; a < core; a++) for (int b = a + 1; b < core; b++) if (!r.chance(80)) add_e(el, id[a], id[b]);
        for (int q = 0; q < sat; q++) if (r.chance(400)) add_e(el, first_sat + q, id[r.below(core)]);    // pendant, else isolated
        n = core + sat; family = "core_satellites";
    } else if (pick < 98 && force_multi) {
        // several small components: triangles, squares, K4, single edges, short paths, isolated vertices
        int comps = (int) r.range(3, 6);
        for (int c = 0; c < comps && n + 4 <= std::max(max_n, 8); c++) {
            int kind = (int) r.below(7);
            if (kind <= 2) { add_e(el, n, n + 1); add_e(el, n + 1, n + 2); add_e(el, n + 2, n); n += 3; }
            else if (kind == 3) { for (int i = 0; i < 4; i++) add_e(el, n + i, n + (i + 1) % 4); n += 4; }
            else if (kind == 4) { for (int a = 0; a < 4; a++) for (int b = a + 1; b < 4; b++) add_e(el, n + a, n + b); n += 4; }
            else if (kind == 5) { add_e(el, n, n + 1); n += 2; }
            else { n += 1; }
        }
        if (r.chance(300)) for (int c = 0; c + 4 < n; c += 3) if (r.chance(500)) add_e(el, c, c + 3);   // string some of them together by bridges
        family = "multi";
    } else if (pick < 98) { n = fam_tree(r, nn, el); family = "tree";
    } else {
        int k = (int) r.below(3);
        n = k == 0 ? 0 : k == 1 ? 1 : (int) r.range(2, 5); family = k == 0 ? "empty" : k == 1 ? "single" : "edgeless";
    }
    dedup(el);
    return n;
}

inline void assign_weights(Rng &r, GGraph &g, const GenOpts &o) {
    if (o.inexact) {
        g.inexact = true; g.wtype = "double"; g.wexp = 0;
        int scheme = (int) r.below(4);
        for (auto &e : g.e) {
            double d;
            if (scheme == 0) d = 0.1 * (double) r.range(1, 12);
            else if (scheme == 1) d = 0.01 * (double) r.range(1, 300);
            else if (scheme == 2) d = std::exp(std::log(1e-3) + r.unit() * (std::log(1e3) - std::log(1e-3)));
            else d = 0.1 * (double) r.range(1, 3);
            if (d < 1e-3) d = 1e-3;
            if (d > 1e3) d = 1e3;
            memcpy(&e.wbits, &d, 8);
        }
        return;
    }
    g.wtype = (o.allow_int && r.chance(350)) ? "int" : "double";
    int scheme = (int) r.below(100);
    g.wexp = 0;
    int64_t cap = o.max_weight;
    if (g.wtype == "int") {
        // keep every sum the library may form below 2^31
        int64_t lim = (int64_t) 2000000000 / std::max<int64_t>(1, (int64_t) std::max(1, g.n) * std::max(1, g.m()));
        cap = std::max<int64_t>(1, std::min(cap, lim));
    }
    if (o.two_level_pm > 0 && r.chance((unsigned) o.two_level_pm)) {
        int64_t H = std::min<int64_t>(cap, r.range(5, 10)); unsigned f = (unsigned) r.range(200, 400);
        if (r.chance(500)) { H = std::min<int64_t>(cap, 8); f = 333; }
        if (H < 4) H = std::min<int64_t>(cap, 4);
        for (auto &e : g.e) e.w = r.chance(f) ? r.range(H, std::min<int64_t>(cap, 2 * H)) : r.range(1, std::min<int64_t>(cap, 3));
    }
    else if (scheme < 25 && g.heavy_tail) {
        // bimodal: mostly light edges, a few very heavy ones (approximation ratios get tight when a
        // cycle is closed over a heavy edge although a light detour exists)
        int64_t H = std::min<int64_t>(cap, (int64_t) r.pick(std::vector<int> { 100, 500, 1000 }));
        for (auto &e : g.e) e.w = r.chance(150) ? r.range(std::max<int64_t>(1, H / 2), H) : r.range(1, std::min<int64_t>(cap, 3));
    }
    else if (scheme < 25) { for (auto &e : g.e) e.w = 1; }
    else if (scheme < 55) { int64_t W = std::min<int64_t>(cap, (int64_t) r.pick(std::vector<int>{ 2, 3, 5 })); for (auto &e : g.e) e.w = r.range(1, W); }
    else if (scheme < 70) {  // distinct integers
        std::vector<int64_t> ws; for (size_t k = 0; k < g.e.size(); k++) ws.push_back((int64_t) k + 1);
        r.shuffle(ws);
        for (size_t k = 0; k < g.e.size(); k++) g.e[k].w = std::min(cap, ws[k] * (int64_t) r.range(1, 3));
    }
    else if (scheme < 85 && g.wtype == "double") { g.wexp = -(int) r.range(1, 6); for (auto &e : g.e) e.w = r.range(1, std::min<int64_t>(cap, 64)); }
    else if (scheme < 93) { for (auto &e : g.e) e.w = r.range(1, cap); }
    else { int64_t W = std::min<int64_t>(cap, 10); for (auto &e : g.e) e.w = r.range(1, W); }
}

inline void relabel_and_shuffle(Rng &r, GGraph &g) {
    std::vector<int> perm(g.n);
    for (int i = 0; i < g.n; i++) perm[i] = i;
    r.shuffle(perm);
    for (auto &e : g.e) { e.u = perm[e.u]; e.v = perm[e.v]; if (r.chance(500)) std::swap(e.u, e.v); }
    r.shuffle(g.e);
}

inline GGraph from_el(int n, const EL &el) {
    GGraph g; g.n = n;
    for (auto &p : el) g.e.push_back(GEdge { p.first, p.second, 1, 0 });
    return g;
}

// sparse graph on n in {31,32,33,63,64,65,...}: a random forest over a few components plus a
// handful of extra edges (cycle-space dimension <= 5) and possibly isolated vertices.  Sizes at
// word / power-of-two boundaries are where bitmap and index arithmetic goes wrong.
inline GGraph gen_boundary_graph(Rng &r, const GenOpts &o) {
    static const int sizes[] = { 31, 32, 33, 63, 64, 65, 95, 96, 127, 128, 129, 191, 192, 255, 256, 257 };
    int n;
    do { n = sizes[r.below(16)]; } while (n > o.boundary_max_n);
    EL el;
    int comps = (int) r.range(1, 4);
    std::vector<int> comp_of(n);
    int isolated = r.chance(400) ? (int) r.range(1, 3) : 0;
    std::vector<std::vector<int>> members(comps);
    for (int v = 0; v < n; v++) {
        bool iso = isolated > 0 && (v == 0 || v == n - 1 || r.chance(10)) && r.chance(600);
        if (iso) { isolated--; comp_of[v] = -1; continue; }
        int c = (int) r.below(comps); comp_of[v] = c;
        if (!members[c].empty()) add_e(el, members[c][r.below(members[c].size())], v);
        members[c].push_back(v);
    }
    int extra = (int) r.range(0, 5);
    for (int k = 0; k < extra; k++) { int c = (int) r.below(comps); if (members[c].size() >= 3) add_e(el, members[c][r.below(members[c].size())], members[c][r.below(members[c].size())]); }
    dedup(el);
    GGraph g = from_el(n, el);
    g.family = "boundary";
    GenOpts o2 = o; o2.max_weight = std::min<int64_t>(o.max_weight, 50);
    assign_weights(r, g, o2);
    r.shuffle(g.e);
    return g;
}

// One graph in the domain of C01/C02 (simple, positive weights, exact sums) within the bounds.
inline GGraph gen_graph(Rng &r, const GenOpts &o) {
    if (o.boundary_pm > 0 && r.chance((unsigned) o.boundary_pm)) return gen_boundary_graph(r, o);
    if (o.subdiv_pm > 0 && r.chance((unsigned) o.subdiv_pm)) {
        EL skel; std::string f; int sn = 0;
        for (int tries = 0; tries < 20; tries++) {
            skel.clear(); sn = (int) r.range(3, 5);
            fam_gnp(r, sn, 0.5 + 0.5 * r.unit(), skel); dedup(skel);
            int d = (int) skel.size() - sn + 1;
            if (d >= 1 && d <= 6) break;
        }
        EL sel; int next = sn;
        bool all_long = r.chance(500);
        for (auto &q : skel) {
            int L = (all_long || r.chance(600)) ? (int) r.range(20, 40) : (int) r.range(1, 4);
            if (next > 170) L = (int) r.range(1, 3);      // keep n below ~210: the tree variants are cubic in n under ASan
            int prev = q.first;
            for (int k = 1; k < L; k++) { sel.emplace_back(prev, next); prev = next++; }
            sel.emplace_back(prev, q.second);
        }
        GGraph g = from_el(next, sel); g.family = "subdivided";
        GenOpts o2 = o; o2.max_weight = std::min<int64_t>(o.max_weight, 20);
        assign_weights(r, g, o2);
        if (r.chance(500)) relabel_and_shuffle(r, g);     // else: chain vertices and edges keep consecutive numbers
        return g;
    }
    if (o.small_dense_pm > 0 && r.chance((unsigned) o.small_dense_pm)) {
        EL sel; int sn = (int) r.range(6, 9);
        int sm = std::min(sn * (sn - 1) / 2, sn + (int) r.range(4, 12));
        std::set<std::pair<int,int>> seen;
        while ((int) sel.size() < sm) { int u = (int) r.below(sn), v = (int) r.below(sn); if (u == v) continue; if (u > v) std::swap(u, v); if (seen.insert({u, v}).second) sel.emplace_back(u, v); }
        GGraph g = from_el(sn, sel); g.family = "small_dense";
        GenOpts o2 = o; o2.two_level_pm = 1000;
        assign_weights(r, g, o2);
        relabel_and_shuffle(r, g);
        return g;
    }
    if (o.mid_pm > 0 && r.chance((unsigned) o.mid_pm)) {
        // measured on an independently seeded pruning slip (s_c02c): the share of inputs on which it shows grows from
        // < 1/60000 (n 6..8) over 1/5000 (n 10..15, m ~ 2n) to 1/900 (n 20..30, m ~ 2n) with two-level weights
        EL mel; int mn = r.chance(500) ? (int) r.range(10, 15) : (int) r.range(16, 30);
        int target = std::min(mn * (mn - 1) / 2, 2 * mn + (int) r.range(0, 20));
        if (r.chance(300)) target = mn + (int) r.range(5, 12);
        fam_tree(r, mn, mel);
        std::set<std::pair<int,int>> seen; for (auto &q : mel) seen.insert({ std::min(q.first, q.second), std::max(q.first, q.second) });
        int guard = 0;
        while ((int) mel.size() < target && guard++ < 4000) { int u = (int) r.below(mn), v = (int) r.below(mn); if (u == v) continue; if (seen.insert({ std::min(u, v), std::max(u, v) }).second) mel.emplace_back(u, v); }
        GGraph g = from_el(mn, mel); g.family = "mid";
        GenOpts o2 = o; o2.max_weight = std::min<int64_t>(o.max_weight, 1000); o2.two_level_pm = std::max(o.two_level_pm, 700);
        assign_weights(r, g, o2);
        relabel_and_shuffle(r, g);
        return g;
    }
    if (o.dense_pm > 0 && r.chance((unsigned) o.dense_pm)) {
        EL del; int dn = (int) r.range(13, 17);
        if (r.chance(400)) fam_complete(dn, del); else fam_gnp(r, dn, 0.7 + 0.3 * r.unit(), del);
        dedup(del);
        GGraph g = from_el(dn, del); g.family = "dense";
        GenOpts o2 = o; o2.max_weight = std::min<int64_t>(o.max_weight, r.chance(500) ? 12 : 4000);
        assign_weights(r, g, o2);
        relabel_and_shuffle(r, g);
        return g;
    }
    if (o.wide_pm > 0 && r.chance((unsigned) o.wide_pm)) {
        // 18..26 vertices with a cycle space of dimension 17..30: support vectors (and vertex ranges) longer than
        // the block / grain sizes (16, 64 candidates) a parallel implementation may cut its work into
        EL wel; int wn;
        if (r.chance(500)) { int a = (int) r.range(2, 3), b = (int) r.range(18, 23); wn = fam_bipartite(a, b, wel); }
        else { wn = (int) r.range(18, 24); fam_tree(r, wn, wel); int extra = (int) r.range(17, 28); for (int k = 0; k < extra; k++) add_e(wel, (int) r.below(wn), (int) r.below(wn)); }
        dedup(wel);
        GGraph g = from_el(wn, wel); g.family = "wide";
        GenOpts o2 = o; o2.max_weight = std::min<int64_t>(o.max_weight, 1000);
        assign_weights(r, g, o2);
        relabel_and_shuffle(r, g);
        return g;
    }
    if (o.hubs_pm > 0 && r.chance((unsigned) o.hubs_pm)) {
        EL hel; std::vector<int64_t> hw;
        int hn = fam_hubs(r, std::max(o.max_n, 20), hel, hw);
        // drop duplicate pairs but keep the weights aligned
        std::set<std::pair<int,int>> seen; GGraph g; g.n = hn;
        for (size_t k = 0; k < hel.size(); k++) {
            auto key = std::make_pair(std::min(hel[k].first, hel[k].second), std::max(hel[k].first, hel[k].second));
            if (hel[k].first == hel[k].second || !seen.insert(key).second) continue;
            g.e.push_back(GEdge { hel[k].first, hel[k].second, hw[k], 0 });
        }
        g.family = "hubs"; g.wexp = r.chance(300) ? -1 : 0; g.wtype = (o.allow_int && g.wexp == 0 && r.chance(300)) ? "int" : "double";
        relabel_and_shuffle(r, g);
        return g;
    }
    EL el; std::string fam;
    bool big_used = false;
    int budget_n = o.max_n;
    int parts = (o.compose && r.chance(250)) ? 2 : 1;
    int n = 0;
    for (int p = 0; p < parts; p++) {
        EL sub; std::string f;
        int room = std::max(0, (budget_n - n) / (parts - p));
        if (room < 1 && p > 0) break;
        bool bigc = parts == 1 && o.big_core_pm > 0 && r.chance((unsigned) o.big_core_pm);
        bool multi = !bigc && parts == 1 && o.multi_pm > 0 && r.chance((unsigned) o.multi_pm);
        int sn = gen_structure(r, std::max(1, room), sub, f, !multi && parts == 1 && o.core_sat_pm > 0 && r.chance((unsigned) o.core_sat_pm), bigc, multi);
        if (bigc) big_used = true;
        for (auto &q : sub) el.emplace_back(q.first + n, q.second + n);
        n += sn;
        fam += (p ? "+" : "") + f;
    }
    if (o.compose) {
        if (r.chance(150) && n < budget_n) { n += (int) r.range(1, std::min(2, budget_n - n)); fam += "+isolated"; }
        if (r.chance(200) && n >= 1 && n < budget_n) {   // pendant tree
            int k = (int) r.range(1, std::min(3, budget_n - n));
            for (int i = 0; i < k; i++) { el.emplace_back((int) r.below(n), n); n++; }
            fam += "+pendant";
        }
        if (r.chance(150) && n >= 2 && parts == 2) {     // bridge between the parts
            el.emplace_back(0, n - 1); fam += "+bridge";
        }
    }
    dedup(el);
    while (!big_used && (int) el.size() > o.max_m) el.erase(el.begin() + (long) r.below(el.size()));
    GGraph g = from_el(n, el);
    g.family = fam;
    g.heavy_tail = o.heavy_tail_pm > 0 && r.chance((unsigned) o.heavy_tail_pm);
    assign_weights(r, g, o);
    if (fam == "core_satellites" && r.chance(700)) { r.shuffle(g.e); for (auto &e : g.e) if (r.chance(500)) std::swap(e.u, e.v); }   // keep the index layout
    else relabel_and_shuffle(r, g);
    return g;
}

} // namespace gen
