# Builds the simulator engines from /repo's current working tree (override REPO=...).
# One executable per engine translation unit and per build flavour:
#   asu   : AddressSanitizer + UndefinedBehaviorSanitizer (+ LeakSanitizer)   -> functional oracles, C07
#   tsan  : ThreadSanitizer with the relaxed-baton scheduler                   -> race clause of C03/C07
#   plain : -O2, no sanitizer                                                  -> big inputs (C08), valgrind pass
REPO ?= /repo
B ?= build
CXX = clang++
STD = -std=c++14
WARN = -Wall -Wno-unused-local-typedef -Wno-deprecated-declarations -Wno-unused-variable -Wno-unused-but-set-variable -Wno-sign-compare -Wno-unused-function
BASE = $(STD) $(WARN) -g -DPARMCB_VERIF -DBOOST_ALLOW_DEPRECATED_HEADERS -DBOOST_BIND_GLOBAL_PLACEHOLDERS -fno-omit-frame-pointer -MMD -MP

FLAGS_asu = -O1 -fsanitize=address,undefined -fno-sanitize-recover=all -fno-sanitize=vptr
FLAGS_tsan = -O1 -fsanitize=thread -Wl,--wrap=_Znwm,--wrap=_Znam,--wrap=_ZdlPv,--wrap=_ZdaPv,--wrap=_ZdlPvm,--wrap=_ZdaPvm
FLAGS_plain = -O2 -gdwarf-4 -DSIM_WRAP_NEW -Wl,--wrap=_Znwm,--wrap=_Znam,--wrap=_ZdlPv,--wrap=_ZdaPv,--wrap=_ZdlPvm,--wrap=_ZdaPvm

INC_seq = -I$(B)/gen/seq -I$(REPO)/include
INC_par = -Isim/include -I$(B)/gen/par -I$(REPO)/include

LIBS_seq = -lboost_timer
LIBS_par = -lboost_timer -lboost_serialization -lpthread -Wl,--wrap=pthread_mutex_lock
LIBS_demo = -lboost_timer -lboost_serialization -lboost_program_options -lboost_thread -lboost_system -lpthread -Wl,--wrap=pthread_mutex_lock

ENGINES_seq =
ENGINES_par = e_seq e_comp e_tbb e_mpi
ENGINES_demo = e_demo_mcb e_demo_approx e_demo_stats e_demo_mpi

HDRS = $(wildcard sim/core/*.hpp oracle/*.hpp gen/*.hpp harness/*.hpp sim/include/tbb/* sim/include/oneapi/tbb/* sim/include/boost/mpi/*)

.PHONY: all clean cfg
.SECONDARY:

all:

cfg: $(B)/gen/seq/parmcb/config.hpp $(B)/gen/par/parmcb/config.hpp

$(B)/gen/seq/parmcb/config.hpp:
	@mkdir -p $(dir $@)
	@printf '#ifndef _PARMCB_CONFIG_HPP_\n#define _PARMCB_CONFIG_HPP_\n#define PARMCB_HAVE_BOOST\n#define PARMCB_INVARIANTS_CHECK\n#endif\n' > $@

$(B)/gen/par/parmcb/config.hpp:
	@mkdir -p $(dir $@)
	@printf '#ifndef _PARMCB_CONFIG_HPP_\n#define _PARMCB_CONFIG_HPP_\n#define PARMCB_HAVE_BOOST\n#define PARMCB_HAVE_TBB\n#define PARMCB_HAVE_MPI\n#define PARMCB_INVARIANTS_CHECK\n#endif\n' > $@

define ENGINE_RULE
$(B)/$(2)/$(1): harness/$(1).cpp $(HDRS) | cfg
	@mkdir -p $(B)/$(2)
	$(CXX) $(BASE) $$(FLAGS_$(2)) $$(INC_$(3)) -DREPO_DIR='"$(REPO)"' -MF $(B)/$(2)/$(1).d -o $$@ harness/$(1).cpp $$(LIBS_$(4))
endef

$(foreach f,asu tsan plain,$(foreach e,$(ENGINES_seq),$(eval $(call ENGINE_RULE,$(e),$(f),seq,seq))))
$(foreach f,asu tsan plain,$(foreach e,$(ENGINES_par),$(eval $(call ENGINE_RULE,$(e),$(f),par,par))))
# real oneTBB (no shadow headers): stub-fidelity cross-check of the concurrency knob
define REAL_RULE
$(B)/$(2)/$(1): harness/$(1).cpp $(HDRS) | cfg
	@mkdir -p $(B)/$(2)
	$(CXX) $(BASE) $$(FLAGS_$(2)) -I$(B)/gen/par -I$(REPO)/include -MF $(B)/$(2)/$(1).d -o $$@ harness/$(1).cpp -ltbb -lpthread
endef
$(foreach f,asu plain,$(eval $(call REAL_RULE,e_knobreal,$(f))))

define DEMO_RULE
$(B)/$(2)/e_demo_$(1): harness/e_demo.cpp $(REPO)/src/$(3).cpp $(HDRS) | cfg
	@mkdir -p $(B)/$(2)
	$(CXX) $(BASE) $$(FLAGS_$(2)) $$(INC_par) -DDEMO_KIND=$(4) -DDEMO_SRC='"$(REPO)/src/$(3).cpp"' -MF $(B)/$(2)/e_demo_$(1).d -o $$@ harness/e_demo.cpp $$(LIBS_demo)
endef
$(foreach f,asu tsan plain,$(eval $(call DEMO_RULE,mcb,$(f),mcb-dimacs,1)))
$(foreach f,asu tsan plain,$(eval $(call DEMO_RULE,approx,$(f),approx-mcb-dimacs,2)))
$(foreach f,asu tsan plain,$(eval $(call DEMO_RULE,stats,$(f),collection-stats-dimacs,3)))
$(foreach f,asu tsan plain,$(eval $(call DEMO_RULE,mpi,$(f),mcb-dimacs-mpi,4)))

-include $(wildcard $(B)/*/*.d)

clean:
	rm -rf $(B)
