// Reference models for cycle bases.  Written from scratch, shares no code with /repo.
// All weights are exact integers (__int128): the harness scales dyadic / double weights by a
// power of two before they get here.
//
//   check_basis      O-basis : simple cycles, count m-n+c, GF(2) independence
//   mcb_bruteforce   O-opt-A : all simple cycles + matroid greedy (ground truth, small graphs)
//   mcb_depina       O-opt-B : textbook de Pina with dense witnesses and plain Dijkstra
#pragma once
#include <algorithm>
#include <cstdint>
#include <functional>
#include <queue>
#include <string>
#include <vector>

namespace orc {

typedef __int128 W;

inline std::string w_str(W v) {
    if (v == 0) return "0";
    bool neg = v < 0; if (neg) v = -v;
    std::string s;
    while (v > 0) { s += (char) ('0' + (int) (v % 10)); v /= 10; }
    if (neg) s += '-';
    std::reverse(s.begin(), s.end());
    return s;
}

struct Edge { int u, v; W w; };
struct Graph {
    int n = 0;
    std::vector<Edge> e;
    int m() const { return (int) e.size(); }
};

struct UnionFind {
    std::vector<int> p;
    explicit UnionFind(int n) : p(n) { for (int i = 0; i < n; i++) p[i] = i; }
    int find(int x) { while (p[x] != x) { p[x] = p[p[x]]; x = p[x]; } return x; }
    bool unite(int a, int b) { a = find(a); b = find(b); if (a == b) return false; p[a] = b; return true; }
};

inline int components(const Graph &g) {
    UnionFind uf(g.n); int c = g.n;
    for (auto &e : g.e) if (uf.unite(e.u, e.v)) c--;
    return c;
}
inline int cycle_space_dim(const Graph &g) { return g.m() - g.n + components(g); }

inline bool is_simple(const Graph &g) {
    std::vector<std::pair<int,int>> s;
    for (auto &e : g.e) { if (e.u == e.v) return false; s.emplace_back(std::min(e.u, e.v), std::max(e.u, e.v)); }
    std::sort(s.begin(), s.end());
    return std::adjacent_find(s.begin(), s.end()) == s.end();
}

// GF(2) rank of rows given as sets of column indices < ncols
inline int gf2_rank(const std::vector<std::vector<int>> &rows, int ncols) {
    int words = (ncols + 63) / 64;
    std::vector<std::vector<uint64_t>> basis;   // each with a distinct leading column
    std::vector<int> lead;
    for (auto &r : rows) {
        std::vector<uint64_t> v(words, 0);
        for (int c : r) v[c / 64] ^= 1ULL << (c % 64);
        for (size_t k = 0; k < basis.size(); k++)
            if (v[lead[k] / 64] >> (lead[k] % 64) & 1)
                for (int w = 0; w < words; w++) v[w] ^= basis[k][w];
        int l = -1;
        for (int c = 0; c < ncols; c++) if (v[c / 64] >> (c % 64) & 1) { l = c; break; }
        if (l >= 0) { basis.push_back(v); lead.push_back(l); }
    }
    return (int) basis.size();
}

struct Verdict {
    std::string cls;     // empty = fine
    std::string msg;
    bool ok() const { return cls.empty(); }
};

// one cycle: edge ids, all valid (0..m-1).  "" if it is one simple cycle.
inline std::string check_simple_cycle(const Graph &g, const std::vector<int> &c) {
    if (c.empty()) return "empty_cycle";
    std::vector<int> ids = c;
    std::sort(ids.begin(), ids.end());
    if (std::adjacent_find(ids.begin(), ids.end()) != ids.end()) return "repeated_edge";
    std::vector<int> deg(g.n, 0);
    UnionFind uf(g.n);
    for (int id : c) { deg[g.e[id].u]++; deg[g.e[id].v]++; uf.unite(g.e[id].u, g.e[id].v); }
    int root = -1;
    for (int id : c) {
        const Edge &e = g.e[id];
        if (e.u == e.v) return "not_simple_cycle";
        if (deg[e.u] != 2 || deg[e.v] != 2) return "not_simple_cycle";
        int r = uf.find(e.u);
        if (root < 0) root = r; else if (r != root) return "not_simple_cycle";
    }
    return "";
}

// cycles as lists of edge ids of g
inline Verdict check_basis(const Graph &g, const std::vector<std::vector<int>> &cycles) {
    for (size_t k = 0; k < cycles.size(); k++) {
        for (int id : cycles[k]) if (id < 0 || id >= g.m()) return Verdict { "foreign_edge", "cycle " + std::to_string(k) };
        std::string c = check_simple_cycle(g, cycles[k]);
        if (!c.empty()) return Verdict { c, "cycle " + std::to_string(k) };
    }
    int dim = cycle_space_dim(g);
    if ((int) cycles.size() != dim)
        return Verdict { "count", "emitted " + std::to_string(cycles.size()) + " expected " + std::to_string(dim) };
    if (gf2_rank(cycles, g.m()) != dim) return Verdict { "dependent", "rank below dimension" };
    return Verdict { "", "" };
}

inline W cycle_weight(const Graph &g, const std::vector<int> &c) {
    W s = 0; for (int id : c) s += g.e[id].w; return s;
}

struct Opt {
    bool ok = false;            // false: outside the oracle's bounds
    W total = 0;
    std::vector<W> weights;     // sorted ascending
    long candidates = 0;
    bool has_tie = false;       // two candidate cycles of equal weight were compared
};

// ---------------------------------------------------------------------------- O-opt-A
// requires a simple graph with m <= 64
inline Opt mcb_bruteforce(const Graph &g, long max_cycles = 400000) {
    Opt r;
    if (g.m() > 64 || !is_simple(g)) return r;
    int n = g.n;
    std::vector<std::vector<std::pair<int,int>>> adj(n);  // (neighbour, edge id)
    for (int id = 0; id < g.m(); id++) { adj[g.e[id].u].emplace_back(g.e[id].v, id); adj[g.e[id].v].emplace_back(g.e[id].u, id); }
    std::vector<std::pair<W, uint64_t>> cyc;
    std::vector<char> on(n, 0);
    bool overflow = false;
    // DFS from s over vertices > s; canonical direction: second vertex < last vertex
    std::function<void(int,int,int,uint64_t,W,int)> dfs = [&](int s, int second, int v, uint64_t mask, W w, int len) {
        if (overflow) return;
        for (auto &pr : adj[v]) {
            int x = pr.first, id = pr.second;
            if (x == s) {
                if (len >= 2 && second < v && !(mask >> id & 1)) {
                    cyc.emplace_back(w + g.e[id].w, mask | (1ULL << id));
                    if ((long) cyc.size() > max_cycles) { overflow = true; return; }
                }
                continue;
            }
            if (x < s || on[x]) continue;
            on[x] = 1;
            dfs(s, len == 0 ? x : second, x, mask | (1ULL << id), w + g.e[id].w, len + 1);
            on[x] = 0;
        }
    };
    for (int s = 0; s < n && !overflow; s++) { on[s] = 1; dfs(s, -1, s, 0, 0, 0); on[s] = 0; }
    if (overflow) return r;
    std::sort(cyc.begin(), cyc.end());
    for (size_t k = 1; k < cyc.size(); k++) if (cyc[k].first == cyc[k - 1].first) { r.has_tie = true; break; }
    int dim = cycle_space_dim(g);
    uint64_t basis[64]; for (auto &b : basis) b = 0;
    int got = 0;
    for (auto &c : cyc) {
        if (got == dim) break;
        uint64_t v = c.second;
        for (int b = 63; b >= 0 && v; b--) {
            if (!(v >> b & 1)) continue;
            if (basis[b]) v ^= basis[b]; else { basis[b] = v; got++; r.total += c.first; r.weights.push_back(c.first); v = 0; break; }
        }
    }
    r.candidates = (long) cyc.size();
    r.ok = (got == dim);
    return r;
}

// ---------------------------------------------------------------------------- O-opt-B
// de Pina: witnesses S_1..S_N over the N non-tree edges; phase i: shortest cycle C with
// <C,S_i> = 1 found as the shortest v+ -> v- path in the signed graph over all v; then
// S_j ^= S_i for every j > i with <C,S_j> = 1.
inline Opt mcb_depina(const Graph &g) {
    Opt r;
    int n = g.n, m = g.m();
    for (auto &e : g.e) if (e.u == e.v || e.w <= 0) return r;
    // spanning forest
    UnionFind uf(n);
    std::vector<int> nontree_of(m, -1), nontree;
    for (int id = 0; id < m; id++) if (!uf.unite(g.e[id].u, g.e[id].v)) { nontree_of[id] = (int) nontree.size(); nontree.push_back(id); }
    int N = (int) nontree.size();
    int words = (N + 63) / 64;
    std::vector<std::vector<uint64_t>> S(N, std::vector<uint64_t>(words, 0));
    for (int i = 0; i < N; i++) S[i][i / 64] |= 1ULL << (i % 64);
    std::vector<std::vector<std::pair<int,int>>> adj(n);
    for (int id = 0; id < m; id++) { adj[g.e[id].u].emplace_back(g.e[id].v, id); adj[g.e[id].v].emplace_back(g.e[id].u, id); }
    const W INF = ((W) 1) << 120;
    std::vector<W> dist(2 * n);
    std::vector<int> pred_edge(2 * n), pred_node(2 * n);
    for (int i = 0; i < N; i++) {
        std::vector<char> sgn(m, 0);
        for (int j = 0; j < N; j++) if (S[i][j / 64] >> (j % 64) & 1) sgn[nontree[j]] = 1;
        W best = INF; std::vector<int> best_edges;
        for (int s = 0; s < n; s++) {
            // only vertices incident to a signed edge can lie on an odd cycle... every odd cycle
            // contains a signed edge, and we try all vertices anyway (no pruning, on purpose).
            std::fill(dist.begin(), dist.end(), INF);
            typedef std::pair<W,int> QE;
            std::priority_queue<QE, std::vector<QE>, std::greater<QE>> pq;
            dist[s] = 0; pq.push(QE(0, s));
            while (!pq.empty()) {
                QE t = pq.top(); pq.pop();
                int x = t.second;
                if (t.first != dist[x]) continue;
                if (t.first >= best) break;
                if (x == s + n) break;
                int xv = x % n, side = x / n;
                for (auto &pr : adj[xv]) {
                    int y = pr.first + n * (side ^ sgn[pr.second]);
                    W d = t.first + g.e[pr.second].w;
                    if (d < dist[y]) { dist[y] = d; pred_edge[y] = pr.second; pred_node[y] = x; pq.push(QE(d, y)); }
                }
            }
            if (dist[s + n] < best) {
                best = dist[s + n];
                std::vector<int> cnt(m, 0);
                for (int x = s + n; x != s; x = pred_node[x]) cnt[pred_edge[x]] ^= 1;
                best_edges.clear();
                for (int id = 0; id < m; id++) if (cnt[id]) best_edges.push_back(id);
            }
        }
        if (best >= INF) return r;   // cannot happen for a valid witness
        r.total += best; r.weights.push_back(best);
        std::vector<uint64_t> C(words, 0);
        for (int id : best_edges) if (nontree_of[id] >= 0) C[nontree_of[id] / 64] ^= 1ULL << (nontree_of[id] % 64);
        for (int j = i + 1; j < N; j++) {
            int par = 0;
            for (int w = 0; w < words; w++) par ^= __builtin_parityll(C[w] & S[j][w]);
            if (par) for (int w = 0; w < words; w++) S[j][w] ^= S[i][w];
        }
    }
    std::sort(r.weights.begin(), r.weights.end());
    r.ok = true;
    return r;
}

} // namespace orc
