// Shadow Boost.MPI (DESIGN §2.4): ranks are simulator threads inside one process, each with its
// own ProcCtx (own graph copy, own arena, own TBB state).  Collectives go through a simulated
// transport that carries boost::archive bytes, so nothing but serialised data crosses a rank
// boundary.  Legal nondeterminism, all Chooser decisions: which rank advances, whether a
// collective returns eagerly or synchronises, the combination order / bracketing of reduce.
#pragma once
#include <boost/archive/binary_iarchive.hpp>
#include <boost/archive/binary_oarchive.hpp>
#include <boost/mpl/bool.hpp>
#include <boost/serialization/vector.hpp>
#include <deque>
#include <functional>
#include <map>
#include <sstream>
#include <string>
#include <vector>
#include "../../../core/sched.hpp"

namespace sim {

enum CollKind { COLL_BCAST = 1, COLL_REDUCE = 2, COLL_SCATTER = 3, COLL_BARRIER = 4, COLL_GATHER = 5, COLL_ALLREDUCE = 6 };

struct Slot {
    int kind = 0, root = 0;
    bool sync = false;                 // everyone waits for everyone
    int arrivals = 0;
    bool root_arrived = false;
    std::vector<std::string> data;     // per-rank payloads (reduce/gather contributions, scatter chunks)
    std::vector<char> arrived;
    std::string payload;               // broadcast payload
};

struct MpiWorld {
    int P = 1;
    std::vector<Slot*> slots;
    std::vector<ProcCtx*> procs;
    std::string violation, violation_msg;
    std::map<long, std::deque<std::string>> mailbox;
    static long key(int src, int dst, int tag) { return ((long) src * 4096 + dst) * 65536 + (tag & 0xffff); }
    long eager = 0, synced = 0, reduce_perm = 0, reduce_bracket = 0, rank_skew = 0, reduce_two_found = 0, collectives = 0, early_finalize = 0;
    ~MpiWorld() { for (auto *s : slots) delete s; }
};
extern MpiWorld *mpi_world;

inline void mpi_violation(const std::string &cls, const std::string &msg) {
    { IgnoreGuard ig; if (mpi_world->violation.empty()) { mpi_world->violation = cls; mpi_world->violation_msg = msg; } }
    Sched::get().request_abort(cls);
    throw SimAbort();
}

// enter the next collective of the calling rank; returns its slot
inline Slot* mpi_enter(int kind, int root) {
    Sched &s = Sched::get();
    ProcCtx *me = tl_proc;
    s.yield();
    Slot *sl; bool mismatch = false; std::string msg;
    {
        IgnoreGuard ig;
        MpiWorld &w = *mpi_world;
        size_t idx = me->coll_index++;
        if (idx >= w.slots.size()) {
            sl = new Slot(); sl->kind = kind; sl->root = root; sl->data.resize(w.P); sl->arrived.assign(w.P, 0);
            w.slots.push_back(sl); w.collectives++;
            sl->sync = s.chooser()->flip(T_EAGER, 400);
            if (sl->sync) w.synced++; else w.eager++;
        } else sl = w.slots[idx];
        if (sl->kind != kind || sl->root != root) {
            mismatch = true;
            msg = "rank " + std::to_string(me->rank) + " entered collective #" + std::to_string(idx) + " as kind " + std::to_string(kind) + " root " + std::to_string(root)
                + " but it was opened as kind " + std::to_string(sl->kind) + " root " + std::to_string(sl->root);
        } else {
            // a rank that races at least two collectives ahead of the slowest unfinished rank
            size_t mn = (size_t) -1;
            for (auto *p : w.procs) if (!p->finished && p->coll_index < mn) mn = p->coll_index;
            if (mn != (size_t) -1 && me->coll_index >= mn + 2) w.rank_skew++;
            for (auto *p : w.procs) if (p->finished && p != me) { w.early_finalize++; break; }
        }
    }
    if (mismatch) mpi_violation("collective_mismatch", msg);
    return sl;
}

struct SlotWait { Slot *sl; int need; bool root; };
inline bool slot_cond(void *p) { SlotWait *w = (SlotWait*) p; return (!w->root || w->sl->root_arrived) && w->sl->arrivals >= w->need; }
inline void mpi_wait(Slot *sl, int need_arrivals, bool need_root) {
    SlotWait w { sl, need_arrivals, need_root };
    if (!Sched::get().wait_until(&slot_cond, &w)) throw SimAbort();
}

struct RecvWait { int me, source, tag; };
inline bool recv_cond(void *p) {
    RecvWait *w = (RecvWait*) p;
    auto it = mpi_world->mailbox.find(MpiWorld::key(w->source, w->me, w->tag));
    return it != mpi_world->mailbox.end() && !it->second.empty();
}

template<class T> inline std::string mpi_pack(const T &v) {
    std::ostringstream os(std::ios::binary);
    { boost::archive::binary_oarchive oa(os, boost::archive::no_header); oa << v; }
    return os.str();
}
template<class T> inline void mpi_unpack(const std::string &bytes, T &v) {
    std::istringstream is(bytes, std::ios::binary);
    boost::archive::binary_iarchive ia(is, boost::archive::no_header);
    ia >> v;
}

} // namespace sim

namespace boost { namespace mpi {

namespace threading { enum level { single = 0, funneled = 1, serialized = 2, multiple = 3 }; }

template<class Op, class T> struct is_commutative : mpl::false_ {};
template<class T> struct is_mpi_datatype : mpl::false_ {};
template<class Op, class T> struct is_mpi_op : mpl::false_ {};

// boost/mpi/operations.hpp
template<class T> struct maximum { const T& operator()(const T &a, const T &b) const { return a < b ? b : a; } };
template<class T> struct minimum { const T& operator()(const T &a, const T &b) const { return a < b ? a : b; } };
template<class T> struct bitwise_and { T operator()(const T &a, const T &b) const { return a & b; } };
template<class T> struct bitwise_or { T operator()(const T &a, const T &b) const { return a | b; } };
template<class T> struct logical_xor { T operator()(const T &a, const T &b) const { return (a || b) && !(a && b); } };
template<class T> struct is_commutative<maximum<T>, T> : mpl::true_ {};
template<class T> struct is_commutative<minimum<T>, T> : mpl::true_ {};
template<class T> struct is_commutative<std::plus<T>, T> : mpl::true_ {};
template<class T> struct is_commutative<std::multiplies<T>, T> : mpl::true_ {};
template<class T> struct is_commutative<std::logical_and<T>, T> : mpl::true_ {};
template<class T> struct is_commutative<std::logical_or<T>, T> : mpl::true_ {};
template<class T> struct is_commutative<bitwise_and<T>, T> : mpl::true_ {};
template<class T> struct is_commutative<bitwise_or<T>, T> : mpl::true_ {};
const int any_source = -1;
const int any_tag = -1;

class environment {
public:
    environment(bool = true) {}
    environment(threading::level, bool = true) {}
    environment(int&, char**&, bool = true) {}
    environment(int&, char**&, threading::level, bool = true) {}
    ~environment() {}
    static bool initialized() { return true; }
    static bool finalized() { return false; }
    static threading::level thread_level() { return threading::multiple; }
    static bool is_main_thread() { return true; }
    static std::string processor_name() { return "simulated-node"; }
    static void abort(int) { sim::mpi_violation("mpi_abort", "environment::abort called"); }
    static int max_tag() { return 32767; }
};

class communicator {
public:
    communicator() {}
    int rank() const { return sim::tl_proc ? sim::tl_proc->rank : 0; }
    int size() const { return sim::tl_proc ? sim::tl_proc->nprocs : 1; }
    void barrier() const { sim::Slot *sl = sim::mpi_enter(sim::COLL_BARRIER, 0); { sim::IgnoreGuard ig; sl->arrivals++; } sim::mpi_wait(sl, size(), false); }
    operator bool() const { return true; }
    // point-to-point (reliable, in order per (source, destination, tag)); send is eager
    template<class T> void send(int dest, int tag, const T &value) const {
        sim::Sched::get().yield();
        std::string bytes = sim::mpi_pack(value);
        sim::IgnoreGuard ig;
        sim::mpi_world->mailbox[sim::MpiWorld::key(rank(), dest, tag)].push_back(bytes);
    }
    template<class T> void recv(int source, int tag, T &value) const {
        sim::Sched::get().yield();
        sim::RecvWait w { rank(), source, tag };
        if (!sim::Sched::get().wait_until(&sim::recv_cond, &w)) throw sim::SimAbort();
        std::string bytes;
        { sim::IgnoreGuard ig; std::deque<std::string> &q = sim::mpi_world->mailbox[sim::MpiWorld::key(source, rank(), tag)]; bytes = q.front(); q.pop_front(); }
        sim::mpi_unpack(bytes, value);
    }
};

class timer {
public:
    timer() { restart(); }
    void restart() { t0 = now(); }
    double elapsed() const { return now() - t0; }
    double elapsed_max() const { return 1e9; }
    double elapsed_min() const { return 1e-6; }
    static bool time_is_global() { return true; }
private:
    static double now() { sim::Chooser *c = sim::Sched::get().chooser(); return c ? 1e-6 * (double) c->steps : 0.0; }   // simulated clock = step counter
    double t0;
};

// ---------------------------------------------------------------- broadcast
template<class T> void broadcast(const communicator &comm, T &value, int root) {
    sim::Slot *sl = sim::mpi_enter(sim::COLL_BCAST, root);
    int P = comm.size();
    if (comm.rank() == root) {
        std::string bytes = sim::mpi_pack(value);
        bool sync;
        { sim::IgnoreGuard ig; sl->payload = bytes; sl->root_arrived = true; sl->arrivals++; sync = sl->sync; }
        if (sync) sim::mpi_wait(sl, P, true);
    } else {
        bool sync;
        { sim::IgnoreGuard ig; sl->arrivals++; sync = sl->sync; }
        sim::mpi_wait(sl, sync ? P : 0, true);
        std::string bytes; { sim::IgnoreGuard ig; bytes = sl->payload; }
        sim::mpi_unpack(bytes, value);
    }
}

// ---------------------------------------------------------------- scatter
template<class T> void scatter(const communicator &comm, const std::vector<T> &in_values, T &out_value, int root) {
    sim::Slot *sl = sim::mpi_enter(sim::COLL_SCATTER, root);
    int P = comm.size();
    if (comm.rank() == root) {
        if ((int) in_values.size() < P) sim::mpi_violation("scatter_size", "scatter at the root got " + std::to_string(in_values.size()) + " values for " + std::to_string(P) + " ranks");
        std::vector<std::string> packed(P);
        for (int r = 0; r < P; r++) packed[r] = sim::mpi_pack(in_values[r]);
        bool sync;
        { sim::IgnoreGuard ig; sl->data = packed; sl->root_arrived = true; sl->arrivals++; sync = sl->sync; }
        if (sync) sim::mpi_wait(sl, P, true);
        std::string mine; { sim::IgnoreGuard ig; mine = sl->data[root]; }
        sim::mpi_unpack(mine, out_value);
    } else {
        bool sync;
        { sim::IgnoreGuard ig; sl->arrivals++; sync = sl->sync; }
        sim::mpi_wait(sl, sync ? P : 0, true);
        std::string mine; { sim::IgnoreGuard ig; mine = sl->data[comm.rank()]; }
        sim::mpi_unpack(mine, out_value);
    }
}
template<class T> void scatter(const communicator &comm, T &out_value, int root) { scatter(comm, std::vector<T>(), out_value, root); }

// ---------------------------------------------------------------- reduce
namespace detail_sim {
template<class T> auto exists_flag(const T &v, int) -> decltype(v.exists, int()) { return v.exists ? 1 : 0; }
template<class T> int exists_flag(const T&, long) { return -1; }
// combine vals[lo, hi) in an order-preserving, seeded bracketing
template<class T, class Op> T bracket(std::deque<T> &vals, size_t lo, size_t hi, Op &op) {
    if (hi - lo == 1) return vals[lo];
    size_t cut = lo + 1;
    { sim::IgnoreGuard ig; uint32_t c = sim::Sched::get().chooser()->choose((uint32_t) (hi - lo - 1), sim::T_REDUCE, 500); cut = hi - 1 - c; if (c) sim::mpi_world->reduce_bracket++; }
    T l = bracket(vals, lo, cut, op), r = bracket(vals, cut, hi, op);
    if (exists_flag(l, 0) == 1 && exists_flag(r, 0) == 1) { sim::IgnoreGuard ig; sim::mpi_world->reduce_two_found++; }
    return op(l, r);
}
}
template<class T, class Op> void reduce(const communicator &comm, const T &in_value, T &out_value, Op op, int root) {
    sim::Slot *sl = sim::mpi_enter(sim::COLL_REDUCE, root);
    int P = comm.size(), me = comm.rank();
    std::string bytes = sim::mpi_pack(in_value);
    bool sync;
    { sim::IgnoreGuard ig; sl->data[me] = bytes; sl->arrived[me] = 1; sl->arrivals++; if (me == root) sl->root_arrived = true; sync = sl->sync; }
    if (me != root) { if (sync) sim::mpi_wait(sl, P, false); return; }
    sim::mpi_wait(sl, P, false);
    std::deque<T> vals(P);      // deque: no vector<bool> specialisation
    for (int r = 0; r < P; r++) { std::string b; { sim::IgnoreGuard ig; b = sl->data[r]; } sim::mpi_unpack(b, vals[r]); }
    if (is_commutative<Op, T>::value && P > 1) {
        // a commutative operator may be applied to the contributions in any order
        sim::IgnoreGuard ig;
        sim::Chooser *c = sim::Sched::get().chooser();
        bool moved = false;
        for (size_t i = vals.size(); i > 1; i--) { uint32_t j = c->choose((uint32_t) i, sim::T_REDUCE, 500); size_t a = i - 1, b = i - 1 - j; if (a != b) { std::swap(vals[a], vals[b]); moved = true; } }
        if (moved) sim::mpi_world->reduce_perm++;
    }
    out_value = detail_sim::bracket(vals, 0, vals.size(), op);
}
template<class T, class Op> void reduce(const communicator &comm, const T &in_value, Op op, int root) { T dummy; reduce(comm, in_value, dummy, op, root); }

template<class T, class Op> void all_reduce(const communicator &comm, const T &in_value, T &out_value, Op op) {
    T tmp = in_value;
    reduce(comm, in_value, tmp, op, 0);
    broadcast(comm, tmp, 0);
    out_value = tmp;
}
template<class T, class Op> T all_reduce(const communicator &comm, const T &in_value, Op op) { T out; all_reduce(comm, in_value, out, op); return out; }

template<class T> void gather(const communicator &comm, const T &in_value, std::vector<T> &out_values, int root) {
    sim::Slot *sl = sim::mpi_enter(sim::COLL_GATHER, root);
    int P = comm.size(), me = comm.rank();
    std::string bytes = sim::mpi_pack(in_value);
    bool sync;
    { sim::IgnoreGuard ig; sl->data[me] = bytes; sl->arrivals++; sync = sl->sync; }
    if (me != root) { if (sync) sim::mpi_wait(sl, P, false); return; }
    sim::mpi_wait(sl, P, false);
    out_values.clear();
    for (int r = 0; r < P; r++) { std::string b; { sim::IgnoreGuard ig; b = sl->data[r]; } T v; sim::mpi_unpack(b, v); out_values.push_back(v); }
}
template<class T> void gather(const communicator &comm, const T &in_value, int root) { std::vector<T> dummy; gather(comm, in_value, dummy, root); }
template<class T> void gather(const communicator &comm, const T &in_value, T *out_values, int root) {
    std::vector<T> v; gather(comm, in_value, v, root);
    if (comm.rank() == root) for (size_t k = 0; k < v.size(); k++) out_values[k] = v[k];
}
// array forms
template<class T> void broadcast(const communicator &comm, T *values, int n, int root) {
    std::vector<T> v; if (comm.rank() == root) v.assign(values, values + n);
    broadcast(comm, v, root);
    if (comm.rank() != root) for (int k = 0; k < n && k < (int) v.size(); k++) values[k] = v[k];
}
template<class T, class Op> void reduce(const communicator &comm, const T *in_values, int n, T *out_values, Op op, int root) {
    for (int k = 0; k < n; k++) { T out = in_values[k]; reduce(comm, in_values[k], out, op, root); if (comm.rank() == root) out_values[k] = out; }
}
template<class T, class Op> void reduce(const communicator &comm, const T *in_values, int n, Op op, int root) {
    for (int k = 0; k < n; k++) { T out = in_values[k]; reduce(comm, in_values[k], out, op, root); }
}
template<class T, class Op> void all_reduce(const communicator &comm, const T *in_values, int n, T *out_values, Op op) {
    for (int k = 0; k < n; k++) all_reduce(comm, in_values[k], out_values[k], op);
}
template<class T> void scatter(const communicator &comm, const T *in_values, T &out_value, int root) {
    std::vector<T> v; if (comm.rank() == root) v.assign(in_values, in_values + comm.size());
    scatter(comm, v, out_value, root);
}
template<class T> void all_gather(const communicator &comm, const T &in_value, std::vector<T> &out_values) {
    gather(comm, in_value, out_values, 0);
    broadcast(comm, out_values, 0);
}

} } // namespace boost::mpi

#ifdef SIM_MPI_DEFINE
namespace sim { MpiWorld *mpi_world = nullptr; }
#endif
