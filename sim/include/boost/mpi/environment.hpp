// shadow Boost.MPI header (simulator): see sim_mpi.hpp
#pragma once
#include "sim_mpi.hpp"
