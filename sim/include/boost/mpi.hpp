// shadow Boost.MPI header (simulator)
#pragma once
#include "mpi/sim_mpi.hpp"
