// Shadow oneTBB (DESIGN §2.3).  The library's  #include <tbb/...>  resolves to this file; every
// construct is executed by the baton scheduler and every degree of freedom real TBB has
// (where a range is bisected, which right halves are stolen and therefore start a fresh
// accumulator from the identity, when stolen strands run relative to each other, in which
// order concurrent push_backs land) is a Chooser decision.
//
// Execution model of parallel_reduce(range, identity, body, reduction), after oneTBB 2021's
// start_reduce / reduction_tree_node:
//     exec(node, acc):  leaf      -> acc = body(leaf, (const Value&) acc)
//                       split     -> right half offered; if stolen: a new strand evaluates the
//                                    right subtree on a fresh copy of the identity, the current
//                                    strand evaluates the left subtree, waits, and then
//                                    acc = reduction((const&) acc, (const&) right);
//                                    if not stolen: exec(left, acc); exec(right, acc)
// A steal is only possible while fewer than W strands of the process are active, where W is
// the smaller of the run's worker count and the live global_control limit.
#pragma once
#include <cstddef>
#include <cstdint>
#include <algorithm>
#include <deque>
#include <exception>
#include <functional>
#include <memory>
#include <iterator>
#include <map>
#include <new>
#include <set>
#include <tuple>
#include <type_traits>
#include <utility>
#include <vector>
#include "../../../../core/sched.hpp"

#define TBB_VERSION_MAJOR 2021
#define TBB_VERSION_MINOR 8
#define TBB_INTERFACE_VERSION 12080
#define __TBB_SIMULATED 1

namespace sim {

struct TbbCfg {
    int W = 1;               // virtual workers of the run (the caller is one of them)
    int hw = 16;             // simulated hardware concurrency
    int split_pm = 550;      // per-mille probability that a divisible node is bisected
    int steal_pm = 500;      // per-mille probability that an offered right half is stolen
    int max_leaves = 24;     // per region
    int steal_max_size = 0;  // swarm knob: if > 0 only right halves of at most this many elements are stolen
                             // (deep, small steals followed by a long continuation on the joined accumulator)
    int steal_budget = 0;    // swarm knob: if > 0 at most this many steals per parallel region (one or two steals at seeded positions,
                             // everything else runs on in order: the longest possible continuation on a joined accumulator)
    int yield_pm = 300;
};
struct RegionRec { size_t limit; int W; };
struct TbbStats {
    long regions = 0, leaves = 0, splits = 0, steals = 0, joins = 0, join_both = 0, join_one = 0, join_none = 0;
    long pushes = 0, push_other_strand = 0, body_on_found = 0, reduce_multi_run = 0;
    long body_after_join_none = 0;           // a body ran on an accumulator that is the result of joining two "not found" values
    const void *jn_acc[64] = {}; int jn_n = 0;
    long max_range = 0, regions_gt64 = 0, regions_gt256 = 0, regions_gt1024 = 0;   // reach: sizes of the ranges handed to regions
    std::vector<RegionRec> region_log;
    void reset() { *this = TbbStats(); }
};
extern TbbCfg tbbcfg;
extern TbbStats tbbstats;
extern ProcCtx default_proc;

inline ProcCtx* cur_proc() { return tl_proc ? tl_proc : &default_proc; }

inline size_t tbb_limit() {
    ProcCtx *p = cur_proc();
    IgnoreGuard ig;
    if (p->gc_parallelism.empty()) return (size_t) tbbcfg.hw;
    return *p->gc_parallelism.begin();
}

// does an accumulator of the library's (cycle, weight, found) shape hold a result?  -1 = unknown type
template<class V> inline int value_found(const V&) { return -1; }
template<class E, class W> inline int value_found(const std::tuple<std::set<E>, W, bool> &v) { return std::get<2>(v) ? 1 : 0; }

struct RegionScope {
    int W;
    RegionScope() {
        IgnoreGuard ig;
        size_t lim = tbb_limit();
        W = tbbcfg.W; if ((size_t) W > lim) W = (int) lim; if (W < 1) W = 1;
        tbbstats.regions++;
        if (tbbstats.region_log.size() < 4096) tbbstats.region_log.push_back(RegionRec { lim, W });
        ProcCtx *p = cur_proc();
        if (p->active_strands < 1) p->active_strands = 1;
    }
};

inline bool may_steal(int W, size_t right_size = 0, int region_steals = 0) {
    ProcCtx *p = cur_proc();
    IgnoreGuard ig;
    if (tbbcfg.steal_budget > 0 && region_steals >= tbbcfg.steal_budget) return false;
    if (tbbcfg.steal_max_size > 0 && right_size > (size_t) tbbcfg.steal_max_size) return false;
    return W > 1 && p->active_strands < W;
}
inline void strand_delta(int d) {
    ProcCtx *p = cur_proc();
    IgnoreGuard ig;
    p->active_strands += d;
    if (p->active_strands > p->max_active_strands) p->max_active_strands = p->active_strands;
}
// bisect this node?  (shared per-region leaf counter: simulator bookkeeping, invisible to TSan)
inline bool want_split(int &leaves) {
    IgnoreGuard ig;
    if (leaves >= tbbcfg.max_leaves) return false;
    Chooser *c = Sched::get().chooser();
    if (!c || !c->flip(T_SPLIT, tbbcfg.split_pm)) return false;
    leaves++; tbbstats.splits++;
    return true;
}
// a strand that waited for a stolen child becomes active again only when a worker is free:
// real TBB's waiting thread runs other tasks meanwhile and is itself one of the W workers
struct ResumeArg { ProcCtx *p; int W; };
inline bool resume_cond(void *a) { ResumeArg *r = (ResumeArg*) a; return r->p->active_strands < r->W; }
inline void strand_resume(int W) {
    ResumeArg a { cur_proc(), W < 1 ? 1 : W };
    Sched &s = Sched::get();
    if (s.active() && !s.is_aborting()) s.wait_until(&resume_cond, &a);
    strand_delta(+1);
}
inline void note_range(size_t n) {
    IgnoreGuard ig;
    if ((long) n > tbbstats.max_range) tbbstats.max_range = (long) n;
    if (n > 64) tbbstats.regions_gt64++;
    if (n > 256) tbbstats.regions_gt256++;
    if (n > 1024) tbbstats.regions_gt1024++;
}
template<class R> inline auto note_range_of(const R &r, int) -> decltype((void) r.size()) { note_range((size_t) r.size()); }
template<class R> inline void note_range_of(const R&, long) {}
inline bool flip(int tag, int pm) { IgnoreGuard ig; Chooser *c = Sched::get().chooser(); return c ? c->flip(tag, pm) : false; }

} // namespace sim

namespace tbb {

class split {};
class proportional_split {
public:
    proportional_split(size_t l = 1, size_t r = 1) : l_(l), r_(r) {}
    size_t left() const { return l_; }
    size_t right() const { return r_; }
    operator split() const { return split(); }
private:
    size_t l_, r_;
};

template<typename Value>
class blocked_range {
public:
    typedef Value const_iterator;
    typedef std::size_t size_type;
    blocked_range(Value b, Value e, size_type grainsize = 1) : my_end(e), my_begin(b), my_grainsize(grainsize) {}
    const_iterator begin() const { return my_begin; }
    const_iterator end() const { return my_end; }
    size_type size() const { return size_type(my_end - my_begin); }
    size_type grainsize() const { return my_grainsize; }
    bool empty() const { return !(my_begin < my_end); }
    bool is_divisible() const { return my_grainsize < size(); }
    blocked_range(blocked_range &r, split) : my_end(r.my_end), my_begin(do_split(r)), my_grainsize(r.my_grainsize) {}
    blocked_range(blocked_range &r, proportional_split&) : my_end(r.my_end), my_begin(do_split(r)), my_grainsize(r.my_grainsize) {}
private:
    Value my_end, my_begin;
    size_type my_grainsize;
    static Value do_split(blocked_range &r) {
        Value middle = r.my_begin + (r.my_end - r.my_begin) / 2u;
        r.my_end = middle;
        return middle;
    }
};

class auto_partitioner {};
class simple_partitioner {};
class static_partitioner {};
class affinity_partitioner {};

class task_group_context {};

// ------------------------------------------------------------------ parallel_for
namespace detail_sim {

template<class Range, class Body>
struct ForCtx { const Body *body; int W; int leaves; int steals; };

template<class Range, class Body> void for_exec(ForCtx<Range, Body> &c, Range &range);

template<class Range, class Body>
struct ForStrand { ForCtx<Range, Body> *c; Range *range; std::exception_ptr ex; };

template<class Range, class Body>
void for_strand_fn(void *p) {
    ForStrand<Range, Body> *st = (ForStrand<Range, Body>*) p;
    try { for_exec(*st->c, *st->range); }
    catch (const sim::SimAbort&) { sim::strand_delta(-1); throw; }
    catch (...) { st->ex = std::current_exception(); }
    sim::strand_delta(-1);
}

template<class Range, class Body>
void for_exec(ForCtx<Range, Body> &c, Range &range) {
    sim::Sched &s = sim::Sched::get();
    if (range.is_divisible() && sim::want_split(c.leaves)) {
        Range right(range, split());
        if (sim::may_steal(c.W, (size_t) right.size(), c.steals) && sim::flip(sim::T_STEAL, sim::tbbcfg.steal_pm)) {
            { sim::IgnoreGuard ig; sim::tbbstats.steals++; c.steals++; }
            ForStrand<Range, Body> st { &c, &right, nullptr };
            sim::strand_delta(+1);
            int id = s.spawn(&for_strand_fn<Range, Body>, &st);
            std::exception_ptr mine;
            try { for_exec(c, range); } catch (const sim::SimAbort&) { s.join(id); throw; } catch (...) { mine = std::current_exception(); }
            sim::strand_delta(-1);
            s.join(id, true);
            sim::strand_resume(c.W);
            if (s.is_aborting()) throw sim::SimAbort();
            if (mine) std::rethrow_exception(mine);
            if (st.ex) std::rethrow_exception(st.ex);
        } else {
            for_exec(c, range);
            for_exec(c, right);
        }
    } else {
        { sim::IgnoreGuard ig; sim::tbbstats.leaves++; }
        s.yield();
        (*c.body)(range);
    }
}

} // namespace detail_sim

template<class Range, class Body>
void parallel_for(const Range &range, const Body &body) {
    if (range.empty()) return;
    sim::RegionScope rs; sim::note_range_of(range, 0);
    detail_sim::ForCtx<Range, Body> c { &body, rs.W, 1, 0 };
    Range r(range);
    detail_sim::for_exec(c, r);
}
template<class Range, class Body, class Partitioner>
void parallel_for(const Range &range, const Body &body, const Partitioner&) { parallel_for(range, body); }
template<class Range, class Body, class Partitioner>
void parallel_for(const Range &range, const Body &body, const Partitioner&, task_group_context&) { parallel_for(range, body); }
template<class Range, class Body>
void parallel_for(const Range &range, const Body &body, affinity_partitioner&) { parallel_for(range, body); }

namespace detail_sim {
template<class Index, class F> struct IndexBody {
    const F &f; Index first, step;
    void operator()(const blocked_range<Index> &r) const { for (Index i = r.begin(); i < r.end(); ++i) f(first + i * step); }
};
}
template<class Index, class F, class = typename std::enable_if<std::is_integral<Index>::value>::type>
void parallel_for(Index first, Index last, Index step, const F &f) {
    if (!(first < last) || step <= 0) return;
    Index n = (last - first + step - 1) / step;
    detail_sim::IndexBody<Index, F> b { f, first, step };
    parallel_for(blocked_range<Index>(0, n), b);
}
template<class Index, class F, class = typename std::enable_if<std::is_integral<Index>::value>::type>
void parallel_for(Index first, Index last, const F &f) { parallel_for(first, last, (Index) 1, f); }

// ------------------------------------------------------------------ parallel_reduce (functional form)
namespace detail_sim {

template<class Range, class Value, class Body, class Red>
struct RedCtx { const Value *identity; const Body *body; const Red *red; int W; int leaves; int runs; };

template<class Range, class Value, class Body, class Red> void red_exec(RedCtx<Range, Value, Body, Red> &c, Range &range, Value &acc);

template<class Range, class Value, class Body, class Red>
struct RedStrand {
    RedCtx<Range, Value, Body, Red> *c; Range *range;
    typename std::aligned_storage<sizeof(Value), alignof(Value)>::type buf;
    bool constructed; std::exception_ptr ex;
    Value& value() { return *reinterpret_cast<Value*>(&buf); }
};

template<class Range, class Value, class Body, class Red>
void red_strand_fn(void *p) {
    RedStrand<Range, Value, Body, Red> *st = (RedStrand<Range, Value, Body, Red>*) p;
    try {
        new (&st->buf) Value(*st->c->identity);     // split constructor: my_value(other.my_identity_element)
        st->constructed = true;
        red_exec(*st->c, *st->range, st->value());
    }
    catch (const sim::SimAbort&) { sim::strand_delta(-1); throw; }
    catch (...) { st->ex = std::current_exception(); }
    sim::strand_delta(-1);
}

template<class Range, class Value, class Body, class Red>
void red_exec(RedCtx<Range, Value, Body, Red> &c, Range &range, Value &acc) {
    sim::Sched &s = sim::Sched::get();
    if (range.is_divisible() && sim::want_split(c.leaves)) {
        Range right(range, split());
        if (sim::may_steal(c.W, (size_t) right.size(), c.runs - 1) && sim::flip(sim::T_STEAL, sim::tbbcfg.steal_pm)) {
            { sim::IgnoreGuard ig; sim::tbbstats.steals++; c.runs++; }
            RedStrand<Range, Value, Body, Red> st; st.c = &c; st.range = &right; st.constructed = false;
            sim::strand_delta(+1);
            int id = s.spawn(&red_strand_fn<Range, Value, Body, Red>, &st);
            std::exception_ptr mine;
            try { red_exec(c, range, acc); }
            catch (const sim::SimAbort&) { s.join(id); if (st.constructed) st.value().~Value(); throw; }
            catch (...) { mine = std::current_exception(); }
            sim::strand_delta(-1);
            s.join(id, true);
            sim::strand_resume(c.W);
            struct Cleanup { RedStrand<Range, Value, Body, Red> &st; ~Cleanup() { if (st.constructed) st.value().~Value(); } } cleanup { st };
            if (s.is_aborting()) throw sim::SimAbort();
            if (mine) std::rethrow_exception(mine);
            if (st.ex) std::rethrow_exception(st.ex);
            {
                int l = sim::value_found(acc), r = sim::value_found(st.value());
                sim::IgnoreGuard ig;
                sim::tbbstats.joins++;
                if (l >= 0) { if (l && r) sim::tbbstats.join_both++; else if (l || r) sim::tbbstats.join_one++; else { sim::tbbstats.join_none++; if (sim::tbbstats.jn_n < 64) sim::tbbstats.jn_acc[sim::tbbstats.jn_n++] = &acc; } }
            }
            s.yield();
            acc = (*c.red)(const_cast<const Value&>(acc), const_cast<const Value&>(st.value()));   // lambda_reduce_body::join
        } else {
            red_exec(c, range, acc);
            red_exec(c, right, acc);
        }
    } else {
        { int f = sim::value_found(acc); sim::IgnoreGuard ig; sim::tbbstats.leaves++; if (f == 1) sim::tbbstats.body_on_found++;
          if (f == 0) for (int q = 0; q < sim::tbbstats.jn_n; q++) if (sim::tbbstats.jn_acc[q] == &acc) { sim::tbbstats.body_after_join_none++; break; } }
        s.yield();
        acc = (*c.body)(range, const_cast<const Value&>(acc));      // lambda_reduce_body::operator()
    }
}

} // namespace detail_sim

template<class Range, class Value, class RealBody, class Reduction>
Value parallel_reduce(const Range &range, const Value &identity, const RealBody &real_body, const Reduction &reduction) {
    Value acc(identity);
    if (range.empty()) return acc;
    sim::RegionScope rs; sim::note_range_of(range, 0);
    detail_sim::RedCtx<Range, Value, RealBody, Reduction> c { &identity, &real_body, &reduction, rs.W, 1, 1 };
    Range r(range);
    detail_sim::red_exec(c, r, acc);
    { sim::IgnoreGuard ig; if (c.runs > 1) sim::tbbstats.reduce_multi_run++; sim::tbbstats.jn_n = 0; }
    return acc;
}
template<class Range, class Value, class RealBody, class Reduction, class Partitioner>
Value parallel_reduce(const Range &range, const Value &identity, const RealBody &real_body, const Reduction &reduction, const Partitioner&) {
    return parallel_reduce(range, identity, real_body, reduction);
}

// imperative form: Body has Body(Body&, split), operator()(const Range&), join(Body&)
namespace detail_sim {
template<class Range, class Body> void ired_exec(int W, int &leaves, Range &range, Body &body) {
    sim::Sched &s = sim::Sched::get();
    if (range.is_divisible() && sim::want_split(leaves)) {
        Range right(range, split());
        if (sim::may_steal(W) && sim::flip(sim::T_STEAL, sim::tbbcfg.steal_pm)) {
            // executed inline but on a split body: value semantics identical, no interleaving explored
            Body rb(body, split());
            ired_exec(W, leaves, range, body);
            ired_exec(W, leaves, right, rb);
            s.yield();
            body.join(rb);
        } else { ired_exec(W, leaves, range, body); ired_exec(W, leaves, right, body); }
    } else { s.yield(); body(range); }
}
}
template<class Range, class Body>
typename std::enable_if<!std::is_const<Body>::value, void>::type parallel_reduce(const Range &range, Body &body) {
    if (range.empty()) return;
    sim::RegionScope rs; sim::note_range_of(range, 0);
    int leaves = 1; Range r(range);
    detail_sim::ired_exec(rs.W, leaves, r, body);
}

// ------------------------------------------------------------------ task_group / parallel_invoke
// task_group: run(f) may execute f at once, defer it until wait(), or hand it to another strand that
// runs concurrently with the caller (a seeded choice); wait() runs what was deferred and joins the strands.
class task_group {
public:
    task_group() {}
    ~task_group() { try { wait(); } catch (...) {} }
    template<class F> void run(const F &f) {
        sim::RegionScope rs;
        sim::Sched &s = sim::Sched::get();
        s.yield();
        int mode = 0;
        { sim::IgnoreGuard ig; sim::Chooser *c = s.chooser(); if (c) mode = (int) c->choose(3, sim::T_PLACE, 600); }
        Item *it = new Item(); it->fn = std::function<void()>(f); it->tid = -1;
        if (mode == 2 && sim::may_steal(rs.W)) {
            { sim::IgnoreGuard ig; sim::tbbstats.steals++; items.push_back(it); }
            sim::strand_delta(+1);
            it->tid = s.spawn(&task_group::strand_fn, it);
        } else if (mode == 1) { sim::IgnoreGuard ig; items.push_back(it); }
        else { std::unique_ptr<Item> own(it); it->fn(); }
    }
    template<class F> void run_and_wait(const F &f) { run(f); wait(); }
    void wait() {
        sim::Sched &s = sim::Sched::get();
        std::vector<Item*> mine;
        { sim::IgnoreGuard ig; mine.swap(items); }
        std::exception_ptr ex;
        for (Item *it : mine) if (it->tid < 0) { s.yield(); try { it->fn(); } catch (const sim::SimAbort&) { ex = std::current_exception(); break; } catch (...) { if (!ex) ex = std::current_exception(); } }
        bool waited = false;
        for (Item *it : mine) if (it->tid >= 0) { if (!waited) { sim::strand_delta(-1); waited = true; } s.join(it->tid); if (it->ex && !ex) ex = it->ex; }
        if (waited) sim::strand_delta(+1);
        for (Item *it : mine) delete it;
        if (s.is_aborting()) throw sim::SimAbort();
        if (ex) std::rethrow_exception(ex);
    }
    void cancel() {}
private:
    struct Item { std::function<void()> fn; int tid; std::exception_ptr ex; };
    static void strand_fn(void *p) {
        Item *it = (Item*) p;
        try { it->fn(); } catch (const sim::SimAbort&) { sim::strand_delta(-1); throw; } catch (...) { it->ex = std::current_exception(); }
        sim::strand_delta(-1);
    }
    std::vector<Item*> items;
    task_group(const task_group&);
    task_group& operator=(const task_group&);
};
template<class F0, class F1> void parallel_invoke(const F0 &f0, const F1 &f1) {
    struct B { const F0 &a; const F1 &b; void operator()(const blocked_range<int> &r) const { for (int i = r.begin(); i < r.end(); i++) { if (i == 0) a(); else b(); } } } body { f0, f1 };
    parallel_for(blocked_range<int>(0, 2), body);
}
template<class F0, class F1, class F2> void parallel_invoke(const F0 &f0, const F1 &f1, const F2 &f2) {
    struct B { const F0 &a; const F1 &b; const F2 &c; void operator()(const blocked_range<int> &r) const { for (int i = r.begin(); i < r.end(); i++) { if (i == 0) a(); else if (i == 1) b(); else c(); } } } body { f0, f1, f2 };
    parallel_for(blocked_range<int>(0, 3), body);
}
template<class It, class F> void parallel_for_each(It first, It last, const F &f) {
    std::vector<It> its; for (It i = first; i != last; ++i) its.push_back(i);
    struct B { const std::vector<It> &its; const F &f; void operator()(const blocked_range<size_t> &r) const { for (size_t i = r.begin(); i < r.end(); i++) f(*its[i]); } } body { its, f };
    parallel_for(blocked_range<size_t>(0, its.size()), body);
}
template<class C, class F> void parallel_for_each(C &c, const F &f) { parallel_for_each(c.begin(), c.end(), f); }

// ------------------------------------------------------------------ global_control / arenas / info
class global_control {
public:
    enum parameter { max_allowed_parallelism, thread_stack_size, terminate_on_exception, scheduler_handle, parameter_max };
    global_control(parameter p, size_t value) : my_param(p), my_value(value), my_proc(sim::cur_proc()), my_uid(sim::cur_proc()->uid) {
        if (p == max_allowed_parallelism) { sim::IgnoreGuard ig; my_proc->gc_parallelism.insert(value < 1 ? 1 : value); }
    }
    ~global_control() {
        if (my_param == max_allowed_parallelism) {
            sim::IgnoreGuard ig;
            // the simulated process this control was created in may be gone (a static that outlived its run)
            if (my_proc != &sim::default_proc && (!sim::live_procs().count(my_proc) || my_proc->uid != my_uid)) return;
            auto it = my_proc->gc_parallelism.find(my_value < 1 ? 1 : my_value);
            if (it != my_proc->gc_parallelism.end()) my_proc->gc_parallelism.erase(it);
        }
    }
    static size_t active_value(parameter p) {
        if (p == max_allowed_parallelism) return sim::tbb_limit();
        if (p == thread_stack_size) return (size_t) 4 << 20;
        return 0;
    }
private:
    global_control(const global_control&);
    global_control& operator=(const global_control&);
    parameter my_param; size_t my_value; sim::ProcCtx *my_proc; uint64_t my_uid;
};

class task_arena {
public:
    static const int automatic = -1;
    task_arena(int max_concurrency = automatic, unsigned = 1) : mc(max_concurrency) {}
    int max_concurrency() const { return mc > 0 ? mc : (int) sim::tbb_limit(); }
    template<class F> auto execute(F &&f) -> decltype(f()) { return f(); }
    void initialize() {}
    void initialize(int m, unsigned = 1) { mc = m; }
private:
    int mc;
};
namespace this_task_arena {
inline int max_concurrency() { return (int) sim::tbb_limit(); }
inline int current_thread_index() { return sim::Sched::get().current(); }
}
namespace info { inline int default_concurrency() { return sim::tbbcfg.hw; } }

// ------------------------------------------------------------------ concurrent_vector
namespace detail_sim {
void* cv_alloc(size_t bytes);
void cv_free(void *p, size_t bytes);
}

template<class T, class A = std::allocator<T>>
class concurrent_vector {
    enum { FIRST_LOG = 3, MAX_SEG = 40 };
public:
    typedef T value_type; typedef size_t size_type; typedef T& reference; typedef const T& const_reference;
    typedef std::ptrdiff_t difference_type; typedef A allocator_type;

    template<class V, class Ref>
    class iter {
    public:
        typedef std::random_access_iterator_tag iterator_category;
        typedef typename std::remove_const<typename std::remove_reference<Ref>::type>::type value_type;
        typedef std::ptrdiff_t difference_type; typedef typename std::remove_reference<Ref>::type* pointer; typedef Ref reference;
        iter() : v(nullptr), i(0) {}
        iter(V *v, size_t i) : v(v), i(i) {}
        template<class V2, class R2> iter(const iter<V2, R2> &o) : v(o.v), i(o.i) {}
        Ref operator*() const { return (*v)[i]; }
        pointer operator->() const { return &(*v)[i]; }
        Ref operator[](difference_type k) const { return (*v)[i + k]; }
        iter& operator++() { ++i; return *this; } iter operator++(int) { iter t = *this; ++i; return t; }
        iter& operator--() { --i; return *this; } iter operator--(int) { iter t = *this; --i; return t; }
        iter& operator+=(difference_type k) { i += k; return *this; } iter& operator-=(difference_type k) { i -= k; return *this; }
        iter operator+(difference_type k) const { return iter(v, i + k); } iter operator-(difference_type k) const { return iter(v, i - k); }
        friend iter operator+(difference_type k, const iter &it) { return iter(it.v, it.i + k); }
        difference_type operator-(const iter &o) const { return (difference_type) i - (difference_type) o.i; }
        bool operator==(const iter &o) const { return i == o.i; } bool operator!=(const iter &o) const { return i != o.i; }
        bool operator<(const iter &o) const { return i < o.i; } bool operator>(const iter &o) const { return i > o.i; }
        bool operator<=(const iter &o) const { return i <= o.i; } bool operator>=(const iter &o) const { return i >= o.i; }
        V *v; size_t i;
    };
    typedef iter<concurrent_vector, T&> iterator;
    typedef iter<const concurrent_vector, const T&> const_iterator;
    typedef blocked_range<iterator> range_type;
    typedef blocked_range<const_iterator> const_range_type;

    concurrent_vector() : sz(0), last_pusher(-1) { for (auto &s : seg) s = nullptr; }
    explicit concurrent_vector(size_type n, const T &t = T()) : concurrent_vector() { grow_by(n, t); }
    concurrent_vector(const concurrent_vector &o) : concurrent_vector() { for (size_t k = 0; k < o.size(); k++) emplace_plain(o[k]); }
    concurrent_vector& operator=(const concurrent_vector &o) { if (this != &o) { clear(); for (size_t k = 0; k < o.size(); k++) emplace_plain(o[k]); } return *this; }
    ~concurrent_vector() { clear(); for (int k = 0; k < MAX_SEG; k++) if (seg[k]) { detail_sim::cv_free(seg[k], seg_size(k) * sizeof(T)); seg[k] = nullptr; } }

    iterator push_back(const T &x) { return emplace_back(x); }
    iterator push_back(T &&x) { return emplace_back(std::move(x)); }
    template<class... Args> iterator emplace_back(Args&&... args) {
        sim::Sched &s = sim::Sched::get();
        s.yield();
        size_t i; T *slot;
        {
            sim::IgnoreGuard ig;
            i = sz++;
            slot = slot_for(i);
            int me = s.current();
            sim::tbbstats.pushes++;
            if (last_pusher >= 0 && last_pusher != me) sim::tbbstats.push_other_strand++;
            last_pusher = me;
        }
        new (slot) T(std::forward<Args>(args)...);
        s.yield();
        return iterator(this, i);
    }
    iterator grow_by(size_type n, const T &t = T()) { size_t start; { sim::IgnoreGuard ig; start = sz; } for (size_t k = 0; k < n; k++) emplace_plain(t); return iterator(this, start); }
    iterator grow_to_at_least(size_type n) { size_t cur; { sim::IgnoreGuard ig; cur = sz; } return grow_by(n > cur ? n - cur : 0); }
    void reserve(size_type) {}
    void shrink_to_fit() {}
    reference operator[](size_type i) { return *locate(i); }
    const_reference operator[](size_type i) const { return *locate(i); }
    reference at(size_type i) { if (i >= size()) throw std::out_of_range("concurrent_vector"); return *locate(i); }
    const_reference at(size_type i) const { if (i >= size()) throw std::out_of_range("concurrent_vector"); return *locate(i); }
    reference front() { return *locate(0); } reference back() { return *locate(size() - 1); }
    const_reference front() const { return *locate(0); } const_reference back() const { return *locate(size() - 1); }
    size_type size() const { sim::IgnoreGuard ig; return sz; }
    size_type capacity() const { return size(); }
    bool empty() const { return size() == 0; }
    iterator begin() { return iterator(this, 0); } iterator end() { return iterator(this, size()); }
    const_iterator begin() const { return const_iterator(this, 0); } const_iterator end() const { return const_iterator(this, size()); }
    const_iterator cbegin() const { return begin(); } const_iterator cend() const { return end(); }
    range_type range(size_t grainsize = 1) { return range_type(begin(), end(), grainsize); }
    const_range_type range(size_t grainsize = 1) const { return const_range_type(begin(), end(), grainsize); }
    void clear() { size_t n; { sim::IgnoreGuard ig; n = sz; } for (size_t k = n; k-- > 0;) locate(k)->~T(); sim::IgnoreGuard ig; sz = 0; last_pusher = -1; }
    void swap(concurrent_vector &o) { sim::IgnoreGuard ig; std::swap(sz, o.sz); for (int k = 0; k < MAX_SEG; k++) std::swap(seg[k], o.seg[k]); }

private:
    size_t sz; int last_pusher;
    T *seg[MAX_SEG];
    static size_t seg_size(int k) { return k == 0 ? ((size_t) 1 << FIRST_LOG) : ((size_t) 1 << (FIRST_LOG + k - 1)); }
    // index -> (segment, offset): segment 0 holds [0, 8), segment k >= 1 holds [8*2^(k-1), 8*2^k)
    static void split_index(size_t i, int &k, size_t &off) {
        if (i < ((size_t) 1 << FIRST_LOG)) { k = 0; off = i; return; }
        int hb = 63 - __builtin_clzll((unsigned long long) i);
        k = hb - FIRST_LOG + 1; off = i - ((size_t) 1 << hb);
    }
    __attribute__((no_sanitize("thread"))) T* locate(size_t i) const { int k; size_t off; split_index(i, k, off); return seg[k] + off; }
    T* slot_for(size_t i) {
        int k; size_t off; split_index(i, k, off);
        if (!seg[k]) seg[k] = (T*) detail_sim::cv_alloc(seg_size(k) * sizeof(T));
        return seg[k] + off;
    }
    template<class... Args> void emplace_plain(Args&&... args) {
        T *slot; { sim::IgnoreGuard ig; slot = slot_for(sz++); }
        new (slot) T(std::forward<Args>(args)...);
    }
};

// ------------------------------------------------------------------ small extras
template<class T> class combinable {
public:
    combinable() {}
    template<class F> explicit combinable(F f) : init(new Fn<F>(f)) {}
    ~combinable() { delete init; }
    T& local() { bool e; return local(e); }
    T& local(bool &exists) {
        int me = sim::Sched::get().current();
        sim::IgnoreGuard ig;
        auto it = m.find(me); exists = it != m.end();
        if (!exists) it = m.emplace(me, init ? init->make() : T()).first;
        return it->second;
    }
    void clear() { sim::IgnoreGuard ig; m.clear(); }
    template<class F> T combine(F f) { sim::IgnoreGuard ig; if (m.empty()) return init ? init->make() : T(); auto it = m.begin(); T r = it->second; for (++it; it != m.end(); ++it) r = f(r, it->second); return r; }
    template<class F> void combine_each(F f) { sim::IgnoreGuard ig; for (auto &p : m) f(p.second); }
private:
    struct FnBase { virtual ~FnBase() {} virtual T make() = 0; };
    template<class F> struct Fn : FnBase { F f; Fn(F f) : f(f) {} T make() override { return f(); } };
    FnBase *init = nullptr;
    std::map<int, T> m;
};

template<class T> class enumerable_thread_specific {
public:
    enumerable_thread_specific() : has_ex(false) {}
    explicit enumerable_thread_specific(const T &ex) : exemplar(ex), has_ex(true) {}
    T& local() { bool e; return local(e); }
    T& local(bool &exists) {
        int me = sim::Sched::get().current();
        sim::IgnoreGuard ig;
        auto it = m.find(me); exists = it != m.end();
        if (!exists) it = m.emplace(me, has_ex ? exemplar : T()).first;
        return it->second;
    }
    size_t size() const { return m.size(); }
    bool empty() const { return m.empty(); }
    void clear() { m.clear(); }
    struct iterator {
        typename std::map<int, T>::iterator it;
        T& operator*() const { return it->second; } T* operator->() const { return &it->second; }
        iterator& operator++() { ++it; return *this; } bool operator!=(const iterator &o) const { return it != o.it; } bool operator==(const iterator &o) const { return it == o.it; }
    };
    iterator begin() { return iterator { m.begin() }; } iterator end() { return iterator { m.end() }; }
    template<class F> T combine(F f) { auto it = m.begin(); if (it == m.end()) return has_ex ? exemplar : T(); T r = it->second; for (++it; it != m.end(); ++it) r = f(r, it->second); return r; }
    template<class F> void combine_each(F f) { for (auto &p : m) f(p.second); }
private:
    T exemplar; bool has_ex;
    std::map<int, T> m;
};

class spin_mutex {
public:
    spin_mutex() : owner(-1) {}
    void lock() {
        sim::Sched &s = sim::Sched::get();
        s.yield();
        if (!s.wait_until(&spin_mutex::is_free, this)) throw sim::SimAbort();
        { sim::IgnoreGuard ig; owner = s.current(); }
        SIM_TSAN_ACQUIRE(&token);
    }
    bool try_lock() { sim::Sched &s = sim::Sched::get(); { sim::IgnoreGuard ig; if (owner >= 0) return false; owner = s.current(); } SIM_TSAN_ACQUIRE(&token); return true; }
    void unlock() { SIM_TSAN_RELEASE(&token); { sim::IgnoreGuard ig; owner = -1; } }
    class scoped_lock {
    public:
        scoped_lock() : m(nullptr) {}
        explicit scoped_lock(spin_mutex &mm) : m(&mm) { m->lock(); }
        ~scoped_lock() { if (m) m->unlock(); }
        void acquire(spin_mutex &mm) { m = &mm; m->lock(); }
        bool try_acquire(spin_mutex &mm) { if (mm.try_lock()) { m = &mm; return true; } return false; }
        void release() { if (m) { m->unlock(); m = nullptr; } }
    private:
        spin_mutex *m;
    };
private:
    static bool is_free(void *p) { return ((spin_mutex*) p)->owner < 0; }
    int owner; char token = 0;
};
typedef spin_mutex mutex;
typedef spin_mutex queuing_mutex;
typedef spin_mutex speculative_spin_mutex;

// ------------------------------------------------------------------ further API surface (kept simple)
// Thread-safe containers: every operation is a scheduling point and is bracketed by an internal lock token,
// so that TSan sees the synchronisation the real containers provide.
namespace detail_sim {
struct OpGuard {
    char *tok;
    explicit OpGuard(char *t) : tok(t) { sim::Sched::get().yield(); SIM_TSAN_ACQUIRE(tok); }
    ~OpGuard() { SIM_TSAN_RELEASE(tok); }
};
}
template<class It, class Cmp> void parallel_sort(It first, It last, const Cmp &cmp) { sim::Sched::get().yield(); std::sort(first, last, cmp); }
template<class It> void parallel_sort(It first, It last) { sim::Sched::get().yield(); std::sort(first, last); }
template<class C> void parallel_sort(C &c) { parallel_sort(c.begin(), c.end()); }
template<class C, class Cmp> void parallel_sort(C &c, const Cmp &cmp) { parallel_sort(c.begin(), c.end(), cmp); }

template<class T, class A = std::allocator<T>> class concurrent_queue {
public:
    void push(const T &v) { detail_sim::OpGuard g(&tok); q.push_back(v); }
    template<class... Args> void emplace(Args&&... a) { detail_sim::OpGuard g(&tok); q.emplace_back(std::forward<Args>(a)...); }
    bool try_pop(T &out) { detail_sim::OpGuard g(&tok); if (q.empty()) return false; out = q.front(); q.pop_front(); return true; }
    bool empty() const { return q.empty(); }
    size_t unsafe_size() const { return q.size(); }
    void clear() { q.clear(); }
private:
    std::deque<T> q; mutable char tok = 0;
};
template<class T, class A = std::allocator<T>> class concurrent_bounded_queue : public concurrent_queue<T, A> {
public:
    void pop(T &out) { while (!this->try_pop(out)) { if (!sim::Sched::get().yield_other()) throw sim::SimAbort(); } }
    size_t size() const { return this->unsafe_size(); }
};
template<class T, class Cmp = std::less<T>, class A = std::allocator<T>> class concurrent_priority_queue {
public:
    void push(const T &v) { detail_sim::OpGuard g(&tok); h.push_back(v); std::push_heap(h.begin(), h.end(), cmp); }
    bool try_pop(T &out) { detail_sim::OpGuard g(&tok); if (h.empty()) return false; std::pop_heap(h.begin(), h.end(), cmp); out = h.back(); h.pop_back(); return true; }
    bool empty() const { return h.empty(); }
    size_t size() const { return h.size(); }
private:
    std::vector<T> h; Cmp cmp; mutable char tok = 0;
};
template<class K, class V, class H = std::hash<K>, class E = std::equal_to<K>, class A = std::allocator<std::pair<const K, V>>>
class concurrent_unordered_map {
    typedef std::map<K, V> M;
public:
    typedef typename M::iterator iterator; typedef typename M::const_iterator const_iterator; typedef std::pair<const K, V> value_type;
    std::pair<iterator, bool> insert(const value_type &v) { detail_sim::OpGuard g(&tok); return m.insert(v); }
    template<class... Args> std::pair<iterator, bool> emplace(Args&&... a) { detail_sim::OpGuard g(&tok); return m.emplace(std::forward<Args>(a)...); }
    V& operator[](const K &k) { detail_sim::OpGuard g(&tok); return m[k]; }
    V& at(const K &k) { detail_sim::OpGuard g(&tok); return m.at(k); }
    const V& at(const K &k) const { return m.at(k); }
    iterator find(const K &k) { detail_sim::OpGuard g(&tok); return m.find(k); }
    const_iterator find(const K &k) const { return m.find(k); }
    size_t count(const K &k) const { return m.count(k); }
    iterator begin() { return m.begin(); } iterator end() { return m.end(); }
    const_iterator begin() const { return m.begin(); } const_iterator end() const { return m.end(); }
    size_t size() const { return m.size(); } bool empty() const { return m.empty(); }
    void clear() { m.clear(); }
private:
    M m; mutable char tok = 0;     // ordered inside: iteration order must not depend on hashing of pointers
};
template<class K, class H = std::hash<K>, class E = std::equal_to<K>, class A = std::allocator<K>>
class concurrent_unordered_set {
    typedef std::set<K> S;
public:
    typedef typename S::iterator iterator; typedef typename S::const_iterator const_iterator;
    std::pair<iterator, bool> insert(const K &k) { detail_sim::OpGuard g(&tok); return s.insert(k); }
    iterator find(const K &k) { detail_sim::OpGuard g(&tok); return s.find(k); }
    const_iterator find(const K &k) const { return s.find(k); }
    size_t count(const K &k) const { return s.count(k); }
    iterator begin() { return s.begin(); } iterator end() { return s.end(); }
    const_iterator begin() const { return s.begin(); } const_iterator end() const { return s.end(); }
    size_t size() const { return s.size(); } bool empty() const { return s.empty(); }
    void clear() { s.clear(); }
private:
    S s; mutable char tok = 0;
};
template<class K, class C = std::less<K>, class A = std::allocator<K>> using concurrent_set = concurrent_unordered_set<K>;
template<class K, class V, class C = std::less<K>, class A = std::allocator<std::pair<const K, V>>> using concurrent_map = concurrent_unordered_map<K, V>;
template<class T> using cache_aligned_allocator = std::allocator<T>;
template<class T> using scalable_allocator = std::allocator<T>;
template<class T> using tbb_allocator = std::allocator<T>;
typedef spin_mutex spin_rw_mutex;
typedef spin_mutex rw_mutex;
typedef spin_mutex null_mutex;

class tick_count {
public:
    class interval_t { public: interval_t(double s = 0) : s(s) {} double seconds() const { return s; } private: double s; };
    static tick_count now() { tick_count t; sim::Chooser *c = sim::Sched::get().chooser(); t.v = c ? (double) c->steps : 0.0; return t; }
    friend interval_t operator-(const tick_count &a, const tick_count &b) { return interval_t((a.v - b.v) * 1e-6); }
private:
    double v = 0;
};

} // namespace tbb

namespace oneapi { namespace tbb = ::tbb; }

#ifdef SIM_TBB_DEFINE
namespace sim {
TbbCfg tbbcfg;
TbbStats tbbstats;
ProcCtx default_proc;
// storage that sibling strands fill cooperatively (concurrent_vector segments).  Under TSan it
// must not be obtained from malloc/mmap by a strand (TSan models the allocation as a write by
// the allocating thread, which would race with the sibling that constructs an element there):
// it comes from a pool mapped by the main thread before any simulator thread exists.
#ifdef SIM_TSAN
static char *cv_pool = nullptr; static size_t cv_pool_used = 0; static const size_t CV_POOL_BYTES = (size_t) 1 << 30;
void cv_pool_init() { if (!cv_pool) { cv_pool = (char*) mmap(nullptr, CV_POOL_BYTES, PROT_READ | PROT_WRITE, MAP_PRIVATE | MAP_ANONYMOUS | MAP_NORESERVE, -1, 0); if (cv_pool == (char*) MAP_FAILED) abort(); } }
void cv_pool_reset() { IgnoreGuard ig; cv_pool_used = 0; }
#else
void cv_pool_init() {}
void cv_pool_reset() {}
#endif
}
namespace tbb { namespace detail_sim {
#ifdef SIM_TSAN
void* cv_alloc(size_t bytes) { sim::IgnoreGuard ig; size_t b = (bytes + 63) & ~(size_t) 63; if (sim::cv_pool_used + b > sim::CV_POOL_BYTES) abort(); void *p = sim::cv_pool + sim::cv_pool_used; sim::cv_pool_used += b; return p; }
void cv_free(void*, size_t) {}
#else
void* cv_alloc(size_t bytes) { return ::operator new(bytes); }
void cv_free(void *p, size_t) { ::operator delete(p); }
#endif
} }
#else
namespace sim { void cv_pool_init(); void cv_pool_reset(); }
#endif
