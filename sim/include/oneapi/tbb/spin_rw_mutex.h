// shadow oneTBB header (simulator): see detail/sim_tbb.hpp
#pragma once
#include "detail/sim_tbb.hpp"
