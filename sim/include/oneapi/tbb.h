// shadow oneTBB header (simulator)
#pragma once
#include "tbb/detail/sim_tbb.hpp"
