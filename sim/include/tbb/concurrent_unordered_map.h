// shadow oneTBB header (simulator): see oneapi/tbb/detail/sim_tbb.hpp
#pragma once
#include "../oneapi/tbb/detail/sim_tbb.hpp"
