// Minimal JSON value (parse + dump) for case files, replay files and result lines.
// Integers are kept as int64; doubles that must round-trip exactly are stored by the
// harnesses as hex strings, never as JSON numbers.
#pragma once
#include <cstdint>
#include <cstdio>
#include <cstdlib>
#include <cstring>
#include <map>
#include <stdexcept>
#include <string>
#include <utility>
#include <vector>

namespace sim {

class Json {
public:
    enum Type { Null, Bool, Int, Dbl, Str, Arr, Obj };
    typedef std::vector<Json> Array;
    typedef std::vector<std::pair<std::string, Json>> Object;  // insertion order kept

    Json() : t(Null), i(0), d(0) {}
    Json(bool b) : t(Bool), i(b), d(0) {}
    Json(int v) : t(Int), i(v), d(0) {}
    Json(unsigned v) : t(Int), i(v), d(0) {}
    Json(long v) : t(Int), i(v), d(0) {}
    Json(long long v) : t(Int), i(v), d(0) {}
    Json(unsigned long v) : t(Int), i((int64_t) v), d(0) {}
    Json(unsigned long long v) : t(Int), i((int64_t) v), d(0) {}
    Json(double v) : t(Dbl), i(0), d(v) {}
    Json(const char *v) : t(Str), i(0), d(0), s(v) {}
    Json(const std::string &v) : t(Str), i(0), d(0), s(v) {}
    static Json array() { Json j; j.t = Arr; return j; }
    static Json object() { Json j; j.t = Obj; return j; }

    Type type() const { return t; }
    bool is_null() const { return t == Null; }
    bool is_int() const { return t == Int; }
    bool is_str() const { return t == Str; }
    bool is_arr() const { return t == Arr; }
    bool is_obj() const { return t == Obj; }

    int64_t as_int() const {
        if (t == Int || t == Bool) return i;
        if (t == Dbl) return (int64_t) d;
        throw std::runtime_error("json: not an int");
    }
    double as_double() const {
        if (t == Dbl) return d;
        if (t == Int) return (double) i;
        throw std::runtime_error("json: not a number");
    }
    bool as_bool() const {
        if (t == Bool || t == Int) return i != 0;
        throw std::runtime_error("json: not a bool");
    }
    const std::string& as_str() const {
        if (t != Str) throw std::runtime_error("json: not a string");
        return s;
    }

    // arrays
    Array& arr() { if (t != Arr) throw std::runtime_error("json: not an array"); return a; }
    const Array& arr() const { if (t != Arr) throw std::runtime_error("json: not an array"); return a; }
    size_t size() const { return t == Arr ? a.size() : t == Obj ? o.size() : 0; }
    Json& operator[](size_t k) { return arr().at(k); }
    const Json& operator[](size_t k) const { return arr().at(k); }
    Json& operator[](int k) { return arr().at((size_t) k); }
    const Json& operator[](int k) const { return arr().at((size_t) k); }
    void push(const Json &v) { if (t == Null) t = Arr; arr().push_back(v); }

    // objects
    Object& obj() { if (t != Obj) throw std::runtime_error("json: not an object"); return o; }
    const Object& obj() const { if (t != Obj) throw std::runtime_error("json: not an object"); return o; }
    bool has(const std::string &k) const {
        if (t != Obj) return false;
        for (auto &p : o) if (p.first == k) return true;
        return false;
    }
    Json& operator[](const std::string &k) {
        if (t == Null) t = Obj;
        for (auto &p : obj()) if (p.first == k) return p.second;
        o.emplace_back(k, Json());
        return o.back().second;
    }
    Json& operator[](const char *k) { return (*this)[std::string(k)]; }
    const Json& at(const std::string &k) const {
        for (auto &p : obj()) if (p.first == k) return p.second;
        throw std::runtime_error("json: missing key " + k);
    }
    const Json& operator[](const std::string &k) const { return at(k); }
    const Json& operator[](const char *k) const { return at(std::string(k)); }
    int64_t get_int(const std::string &k, int64_t def) const { return has(k) && !at(k).is_null() ? at(k).as_int() : def; }
    std::string get_str(const std::string &k, const std::string &def) const { return has(k) && at(k).is_str() ? at(k).as_str() : def; }
    void erase(const std::string &k) {
        for (size_t j = 0; j < o.size(); j++) if (o[j].first == k) { o.erase(o.begin() + j); return; }
    }

    bool operator==(const Json &r) const { return dump() == r.dump(); }
    bool operator!=(const Json &r) const { return !(*this == r); }

    std::string dump() const { std::string out; dump_to(out); return out; }

    void dump_to(std::string &out) const {
        char buf[64];
        switch (t) {
        case Null: out += "null"; break;
        case Bool: out += i ? "true" : "false"; break;
        case Int: snprintf(buf, sizeof buf, "%lld", (long long) i); out += buf; break;
        case Dbl:
            if (d != d || d > 1.7e308 || d < -1.7e308) { out += "null"; break; }
            snprintf(buf, sizeof buf, "%.17g", d); out += buf;
            if (!strpbrk(buf, ".eE")) out += ".0";
            break;
        case Str: dump_str(s, out); break;
        case Arr:
            out += '[';
            for (size_t k = 0; k < a.size(); k++) { if (k) out += ','; a[k].dump_to(out); }
            out += ']';
            break;
        case Obj:
            out += '{';
            for (size_t k = 0; k < o.size(); k++) {
                if (k) out += ',';
                dump_str(o[k].first, out); out += ':'; o[k].second.dump_to(out);
            }
            out += '}';
            break;
        }
    }

    static Json parse(const std::string &text) {
        const char *p = text.c_str();
        Json v = parse_value(p);
        skip(p);
        if (*p) throw std::runtime_error("json: trailing characters");
        return v;
    }

    static Json parse_file(const std::string &path) {
        FILE *f = fopen(path.c_str(), "rb");
        if (!f) throw std::runtime_error("json: cannot open " + path);
        std::string text; char buf[65536]; size_t n;
        while ((n = fread(buf, 1, sizeof buf, f)) > 0) text.append(buf, n);
        fclose(f);
        return parse(text);
    }

    void write_file(const std::string &path) const {
        std::string tmp = path + ".tmp";
        FILE *f = fopen(tmp.c_str(), "wb");
        if (!f) throw std::runtime_error("json: cannot write " + path);
        std::string text = dump(); text += '\n';
        fwrite(text.data(), 1, text.size(), f);
        fclose(f);
        rename(tmp.c_str(), path.c_str());
    }

private:
    Type t; int64_t i; double d; std::string s; Array a; Object o;

    static void dump_str(const std::string &s, std::string &out) {
        out += '"';
        for (unsigned char c : s) {
            switch (c) {
            case '"': out += "\\\""; break;
            case '\\': out += "\\\\"; break;
            case '\n': out += "\\n"; break;
            case '\r': out += "\\r"; break;
            case '\t': out += "\\t"; break;
            default:
                if (c < 0x20 || c >= 0x7f) { char b[8]; snprintf(b, sizeof b, "\\u%04x", c); out += b; }
                else out += (char) c;
            }
        }
        out += '"';
    }
    static void skip(const char *&p) { while (*p == ' ' || *p == '\n' || *p == '\t' || *p == '\r') p++; }
    static Json parse_value(const char *&p) {
        skip(p);
        if (*p == '{') {
            Json j = object(); p++; skip(p);
            if (*p == '}') { p++; return j; }
            while (true) {
                skip(p);
                if (*p != '"') throw std::runtime_error("json: expected key");
                std::string k = parse_string(p);
                skip(p);
                if (*p != ':') throw std::runtime_error("json: expected ':'");
                p++;
                Json v = parse_value(p);
                j.o.emplace_back(k, v);
                skip(p);
                if (*p == ',') { p++; continue; }
                if (*p == '}') { p++; break; }
                throw std::runtime_error("json: expected ',' or '}'");
            }
            return j;
        }
        if (*p == '[') {
            Json j = array(); p++; skip(p);
            if (*p == ']') { p++; return j; }
            while (true) {
                j.a.push_back(parse_value(p));
                skip(p);
                if (*p == ',') { p++; continue; }
                if (*p == ']') { p++; break; }
                throw std::runtime_error("json: expected ',' or ']'");
            }
            return j;
        }
        if (*p == '"') return Json(parse_string(p));
        if (!strncmp(p, "true", 4)) { p += 4; return Json(true); }
        if (!strncmp(p, "false", 5)) { p += 5; return Json(false); }
        if (!strncmp(p, "null", 4)) { p += 4; return Json(); }
        // number
        const char *q = p;
        bool isd = false;
        if (*q == '-') q++;
        while ((*q >= '0' && *q <= '9') || *q == '.' || *q == 'e' || *q == 'E' || *q == '+' || *q == '-') {
            if (*q == '.' || *q == 'e' || *q == 'E') isd = true;
            q++;
        }
        if (q == p) throw std::runtime_error(std::string("json: unexpected character '") + *p + "'");
        std::string num(p, q);
        p = q;
        if (isd) return Json(strtod(num.c_str(), nullptr));
        return Json((long long) strtoll(num.c_str(), nullptr, 10));
    }
    static std::string parse_string(const char *&p) {
        std::string out; p++;
        while (*p && *p != '"') {
            if (*p == '\\') {
                p++;
                switch (*p) {
                case 'n': out += '\n'; break;
                case 'r': out += '\r'; break;
                case 't': out += '\t'; break;
                case 'b': out += '\b'; break;
                case 'f': out += '\f'; break;
                case 'u': {
                    char b[5] = { p[1], p[2], p[3], p[4], 0 };
                    out += (char) strtol(b, nullptr, 16); p += 4; break;
                }
                default: out += *p;
                }
                p++;
            } else out += *p++;
        }
        if (*p != '"') throw std::runtime_error("json: unterminated string");
        p++;
        return out;
    }
};

} // namespace sim
