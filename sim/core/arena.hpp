// Heap-layout seam (DESIGN §2.5): replaceable global operator new.  While a layout scope is
// active on the current simulated process, allocations of the size of a Boost.Graph edge list
// node are served from that process's arena in a seeded permutation of slots.  Freed slots
// are poisoned and never reused within a run, so (a) the pointer order of all edge
// descriptors is a function of the seed alone, (b) a descriptor that outlives its graph can
// be recognised by address.
//
// Include in exactly one translation unit per executable (it defines operator new/delete).
#pragma once
#include <sys/mman.h>
#include <cstdint>
#include <cstdlib>
#include <cstring>
#include <new>
#include <vector>
#include "chooser.hpp"

#if defined(__has_feature)
#  if __has_feature(address_sanitizer)
#    define SIM_ASAN 1
#  endif
#  if __has_feature(thread_sanitizer)
#    define SIM_TSAN 1
#  endif
#endif
#if defined(__SANITIZE_ADDRESS__) && !defined(SIM_ASAN)
#  define SIM_ASAN 1
#endif
#if defined(__SANITIZE_THREAD__) && !defined(SIM_TSAN)
#  define SIM_TSAN 1
#endif

#ifdef SIM_ASAN
extern "C" void __asan_poison_memory_region(void const volatile *addr, size_t size);
extern "C" void __asan_unpoison_memory_region(void const volatile *addr, size_t size);
#  define SIM_POISON(p, n) __asan_poison_memory_region((p), (n))
#  define SIM_UNPOISON(p, n) __asan_unpoison_memory_region((p), (n))
#else
#  define SIM_POISON(p, n) ((void) 0)
#  define SIM_UNPOISON(p, n) ((void) 0)
#endif

#ifdef SIM_TSAN
extern "C" {
void AnnotateIgnoreReadsBegin(const char *f, int l);
void AnnotateIgnoreReadsEnd(const char *f, int l);
void AnnotateIgnoreWritesBegin(const char *f, int l);
void AnnotateIgnoreWritesEnd(const char *f, int l);
void __tsan_acquire(void *addr);
void __tsan_release(void *addr);
}
#  define SIM_TSAN_ACQUIRE(p) __tsan_acquire((void*) (p))
#  define SIM_TSAN_RELEASE(p) __tsan_release((void*) (p))
#  define SIM_MO_STORE std::memory_order_relaxed
#  define SIM_MO_LOAD std::memory_order_relaxed
#else
#  define SIM_TSAN_ACQUIRE(p) ((void) 0)
#  define SIM_TSAN_RELEASE(p) ((void) 0)
#  define SIM_MO_STORE std::memory_order_release
#  define SIM_MO_LOAD std::memory_order_acquire
#endif

namespace sim {

struct IgnoreGuard {
#ifdef SIM_TSAN
    IgnoreGuard() { AnnotateIgnoreReadsBegin(__FILE__, __LINE__); AnnotateIgnoreWritesBegin(__FILE__, __LINE__); }
    ~IgnoreGuard() { AnnotateIgnoreWritesEnd(__FILE__, __LINE__); AnnotateIgnoreReadsEnd(__FILE__, __LINE__); }
#endif
};

enum { ARENA_SLOT = 64, ARENA_SLOTS = 1 << 18, ARENA_MAX = 12 };

struct Arena {
    char *base = nullptr;
    uint8_t state[ARENA_SLOTS];      // 0 never used, 1 live, 2 dead
    uint32_t used_hi = 0;            // slots [0, used_hi) may have been touched
    uint32_t chunk_base = 0, chunk = 256, order_pos = 0;
    std::vector<uint32_t> order;     // order inside the current chunk
    uint64_t perm_seed = 0;          // 0 = identity layout
    uint64_t chunk_no = 0;
    long served = 0, exhausted = 0;

    void reset(uint64_t seed, uint32_t chunk_size) {
        if (used_hi) {
            SIM_UNPOISON(base, (size_t) used_hi * ARENA_SLOT);
            memset(state, 0, used_hi);
        }
        used_hi = 0; chunk_base = 0; order_pos = 0; order.clear(); chunk_no = 0;
        perm_seed = seed; chunk = chunk_size < 1 ? 1 : (chunk_size > 4096 ? 4096 : chunk_size);
        served = 0; exhausted = 0;
    }
    // start a fresh chunk with another permutation; live and dead slots stay as they are
    void rechunk(uint64_t seed, uint32_t chunk_size) {
        IgnoreGuard ig;
        perm_seed = seed; chunk = chunk_size < 1 ? 1 : (chunk_size > 4096 ? 4096 : chunk_size);
        order.clear(); order_pos = 0;
    }
    void next_chunk() {
        chunk_base = used_hi;
        order.resize(chunk);
        for (uint32_t k = 0; k < chunk; k++) order[k] = k;
        if (perm_seed) { Rng r(mix64(perm_seed, chunk_no)); r.shuffle(order); }
        chunk_no++; order_pos = 0;
        used_hi += chunk;
    }
    void* alloc() {
        IgnoreGuard ig;
        if (order_pos >= order.size()) {
            if (used_hi + chunk > ARENA_SLOTS) { exhausted++; return nullptr; }
            next_chunk();
        }
        uint32_t slot = chunk_base + order[order_pos++];
        state[slot] = 1; served++;
        void *p = base + (size_t) slot * ARENA_SLOT;
        SIM_UNPOISON(p, ARENA_SLOT);
        return p;
    }
    void release(void *p) {
        IgnoreGuard ig;
        size_t slot = ((char*) p - base) / ARENA_SLOT;
        state[slot] = 2;
        memset(p, 0xDD, ARENA_SLOT);
        SIM_POISON(p, ARENA_SLOT);
    }
    bool live(const void *p) const {
        if ((const char*) p < base || (const char*) p >= base + (size_t) ARENA_SLOTS * ARENA_SLOT) return false;
        return state[((const char*) p - base) / ARENA_SLOT] == 1;
    }
    bool dead(const void *p) const {
        if ((const char*) p < base || (const char*) p >= base + (size_t) ARENA_SLOTS * ARENA_SLOT) return false;
        return state[((const char*) p - base) / ARENA_SLOT] == 2;
    }
};

struct ArenaGlobals {
    char *region = nullptr;
    size_t region_bytes = 0;
    Arena *arenas[ARENA_MAX];
    size_t node_sizes[4] = { 0, 0, 0, 0 };
    int n_sizes = 0;
};
inline ArenaGlobals& arena_globals() { static ArenaGlobals g; return g; }

// per simulator thread: the arena of the simulated process it belongs to
extern thread_local Arena *tl_arena;
extern thread_local int tl_layout_depth;
extern thread_local bool tl_size_probe;
extern thread_local size_t tl_probe_max;

inline void arena_init() {
    ArenaGlobals &g = arena_globals();
    if (g.region) return;
    g.region_bytes = (size_t) ARENA_MAX * ARENA_SLOTS * ARENA_SLOT;
    g.region = (char*) mmap(nullptr, g.region_bytes, PROT_READ | PROT_WRITE, MAP_PRIVATE | MAP_ANONYMOUS | MAP_NORESERVE, -1, 0);
    if (g.region == (char*) MAP_FAILED) abort();
    for (int k = 0; k < ARENA_MAX; k++) {
        g.arenas[k] = new Arena();
        g.arenas[k]->base = g.region + (size_t) k * ARENA_SLOTS * ARENA_SLOT;
    }
}
inline Arena* arena(int k) { return arena_globals().arenas[k]; }

inline void arena_register_size(size_t s) {
    ArenaGlobals &g = arena_globals();
    for (int k = 0; k < g.n_sizes; k++) if (g.node_sizes[k] == s) return;
    if (g.n_sizes < 4 && s <= ARENA_SLOT) g.node_sizes[g.n_sizes++] = s;
}

// run f() (which performs exactly one add_edge on a fresh two-vertex graph) and learn the
// size of the edge list node: the largest single allocation made.
template<class F> size_t arena_learn_node_size(F f) {
    tl_size_probe = true; tl_probe_max = 0;
    f();
    tl_size_probe = false;
    arena_register_size(tl_probe_max);
    return tl_probe_max;
}

struct LayoutScope {
    LayoutScope() { tl_layout_depth++; }
    ~LayoutScope() { tl_layout_depth--; }
};

inline bool arena_owns(const void *p) {
    ArenaGlobals &g = arena_globals();
    return g.region && (const char*) p >= g.region && (const char*) p < g.region + g.region_bytes;
}
inline Arena* arena_of(const void *p) {
    ArenaGlobals &g = arena_globals();
    return g.arenas[((const char*) p - g.region) / ((size_t) ARENA_SLOTS * ARENA_SLOT)];
}

inline void* arena_new(size_t size) {
    if (tl_size_probe && size > tl_probe_max) tl_probe_max = size;
    if (tl_layout_depth > 0 && tl_arena) {
        ArenaGlobals &g = arena_globals();
        for (int k = 0; k < g.n_sizes; k++)
            if (g.node_sizes[k] == size) {
                void *p = tl_arena->alloc();
                if (p) return p;
                break;
            }
    }
    void *p = malloc(size ? size : 1);
    if (!p) throw std::bad_alloc();
    return p;
}
inline void arena_delete(void *p) noexcept {
    if (!p) return;
    if (arena_owns(p)) { arena_of(p)->release(p); return; }
    free(p);
}

} // namespace sim

#ifdef SIM_ARENA_DEFINE
namespace sim {
thread_local Arena *tl_arena = nullptr;
thread_local int tl_layout_depth = 0;
thread_local bool tl_size_probe = false;
thread_local size_t tl_probe_max = 0;
}
#if defined(SIM_TSAN) || defined(SIM_WRAP_NEW)
// (plain flavour too: under valgrind a replaced operator new that calls malloc is reported as a mismatched free)
// The TSan runtime defines operator new/delete itself (whole-archive); interpose at link time
// instead: -Wl,--wrap=_Znwm,... routes the references of this translation unit here.
extern "C" {
void* __real__Znwm(size_t); void* __real__Znam(size_t);
void __real__ZdlPv(void*); void __real__ZdaPv(void*); void __real__ZdlPvm(void*, size_t); void __real__ZdaPvm(void*, size_t);
static inline void* sim_tsan_new(size_t size, bool arr) {
    if (sim::tl_size_probe && size > sim::tl_probe_max) sim::tl_probe_max = size;
    if (sim::tl_layout_depth > 0 && sim::tl_arena) {
        sim::ArenaGlobals &g = sim::arena_globals();
        for (int k = 0; k < g.n_sizes; k++) if (g.node_sizes[k] == size) { void *p = sim::tl_arena->alloc(); if (p) return p; break; }
    }
    return arr ? __real__Znam(size) : __real__Znwm(size);
}
void* __wrap__Znwm(size_t size) { return sim_tsan_new(size, false); }
void* __wrap__Znam(size_t size) { return sim_tsan_new(size, true); }
void __wrap__ZdlPv(void *p) { if (p && sim::arena_owns(p)) sim::arena_of(p)->release(p); else __real__ZdlPv(p); }
void __wrap__ZdaPv(void *p) { if (p && sim::arena_owns(p)) sim::arena_of(p)->release(p); else __real__ZdaPv(p); }
void __wrap__ZdlPvm(void *p, size_t n) { if (p && sim::arena_owns(p)) sim::arena_of(p)->release(p); else __real__ZdlPvm(p, n); }
void __wrap__ZdaPvm(void *p, size_t n) { if (p && sim::arena_owns(p)) sim::arena_of(p)->release(p); else __real__ZdaPvm(p, n); }
}
#else
void* operator new(size_t size) { return sim::arena_new(size); }
void* operator new[](size_t size) { return sim::arena_new(size); }
void* operator new(size_t size, const std::nothrow_t&) noexcept { try { return sim::arena_new(size); } catch (...) { return nullptr; } }
void* operator new[](size_t size, const std::nothrow_t&) noexcept { try { return sim::arena_new(size); } catch (...) { return nullptr; } }
void operator delete(void *p) noexcept { sim::arena_delete(p); }
void operator delete[](void *p) noexcept { sim::arena_delete(p); }
void operator delete(void *p, size_t) noexcept { sim::arena_delete(p); }
void operator delete[](void *p, size_t) noexcept { sim::arena_delete(p); }
void operator delete(void *p, const std::nothrow_t&) noexcept { sim::arena_delete(p); }
void operator delete[](void *p, const std::nothrow_t&) noexcept { sim::arena_delete(p); }
#endif
#endif
