// Worker protocol shared by all engines (DESIGN §6, Appendix A):
//
//   e_x --prop P --tier T --seed S --from a --to b [--stride k] --id W --dir build/run/...
//        generate + run cases a, a+k, ... < b; one JSON line per run on stdout ("R {...}")
//   e_x --replay file
//        run one replay file (case + recorded choice trace); prints "R {...}", exit 0
//   e_x --minimise file --class C --out file2 [--budget N]
//        shrink case and choice trace while class C persists (each candidate in a forked child)
//
// An engine provides generate(), run() and optionally extra shrink candidates.
#pragma once
#include <signal.h>
#include <sys/stat.h>
#include <sys/wait.h>
#include <unistd.h>
#include <chrono>
#include <cstdio>
#include <cstdlib>
#include <ctime>
#include <cstring>
#include <map>
#include <set>
#include <string>
#include <vector>
#include "chooser.hpp"
#include "json.hpp"

namespace sim {

struct RunResult {
    std::vector<std::string> classes;       // violated classes, "" never
    Json detail = Json::object();           // diagnostics (first violation, reach info)
    bool nontrivial = false;
    uint64_t dkey = 0;                      // key by which distinct cases are counted
    std::map<std::string, long> fired;      // fault kinds that actually fired
    std::map<std::string, long> probes;     // reach probes
    uint64_t sched_fp = 0;                  // schedule fingerprint
    std::string entry;                      // entry point exercised
    void fail(const std::string &cls, const std::string &msg = "") {
        for (auto &c : classes) if (c == cls) return;
        classes.push_back(cls);
        if (!detail.has("first")) { detail["first"] = cls; detail["msg"] = msg; }
    }
    bool has(const std::string &cls) const { for (auto &c : classes) if (c == cls) return true; return false; }
};

class Engine {
public:
    virtual ~Engine() {}
    virtual const char* name() const = 0;
    // explicit case for property `prop` (may be "any")
    virtual Json generate(const std::string &prop, const std::string &tier, Rng &rng, uint64_t index) = 0;
    virtual void run(const Json &cs, Chooser &ch, RunResult &r) = 0;
    // engine specific extra shrink candidates, tried before the generic ones
    virtual void shrink_extra(const Json &cs, std::vector<Json> &out) { (void) cs; (void) out; }
    // keep candidate? (engine specific validity, e.g. a minimum number of vertices)
    virtual bool valid(const Json &cs) { (void) cs; return true; }
    virtual void init() {}
};

inline uint64_t fnv_str(const std::string &s) {
    uint64_t h = 1469598103934665603ULL;
    for (unsigned char c : s) { h ^= c; h *= 1099511628211ULL; }
    return h;
}
inline std::string hex(uint64_t v) { char b[32]; snprintf(b, sizeof b, "%016llx", (unsigned long long) v); return b; }

inline Json case_without_choices(const Json &cs) { Json c = cs; c.erase("choices"); return c; }

struct Outcome {
    RunResult r;
    uint64_t event_hash = 0, case_hash = 0, steps = 0;
    Json choices;
    std::string error;   // harness error (exception out of the engine)
};

extern "C" int __lsan_do_recoverable_leak_check() __attribute__((weak));
inline bool& leakcheck_enabled() { static bool b = false; return b; }

__attribute__((noinline)) inline void scrub_stack() { char buf[1 << 16]; memset(buf, 0, sizeof buf); asm volatile("" : : "r"(buf) : "memory"); }

inline Outcome execute(Engine &eng, const Json &cs) {
    Outcome o;
    Chooser ch;
    if (cs.has("choices") && cs["choices"].is_arr()) ch.start_replay(Chooser::trace_from_json(cs["choices"]));
    else ch.start_record((uint64_t) cs.get_int("sched_seed", 1));
    o.case_hash = fnv_str(case_without_choices(cs).dump());
    try {
        eng.run(cs, ch, o.r);
    } catch (const std::exception &ex) {
        o.error = std::string("exception: ") + ex.what();
    }
    for (auto &c : o.r.classes) ch.log.add_str(c);
    o.event_hash = ch.log.h;
    // leak attribution is not part of the event log: which check first sees a block as unreachable
    // can depend on stale stack contents
    if (leakcheck_enabled() && __lsan_do_recoverable_leak_check) {
        scrub_stack();
        if (__lsan_do_recoverable_leak_check()) o.r.fail("lsan:leak", "LeakSanitizer found memory that became unreachable during this run");
    }
    o.steps = ch.steps;
    o.choices = ch.trace_json();
    return o;
}

inline Json outcome_json(const Outcome &o, long index) {
    Json j = Json::object();
    j["i"] = (long long) index;
    j["case_hash"] = hex(o.case_hash);
    j["event_hash"] = hex(o.event_hash);
    Json cl = Json::array(); for (auto &c : o.r.classes) cl.push(c);
    j["classes"] = cl;
    j["steps"] = (long long) o.steps;
    j["nontrivial"] = o.r.nontrivial;
    j["dkey"] = hex(o.r.dkey ? o.r.dkey : o.case_hash);
    j["sched_fp"] = hex(o.r.sched_fp);
    j["entry"] = o.r.entry;
    Json f = Json::object(); for (auto &p : o.r.fired) f[p.first] = (long long) p.second; j["fired"] = f;
    Json pr = Json::object(); for (auto &p : o.r.probes) pr[p.first] = (long long) p.second; j["probes"] = pr;
    if (!o.r.classes.empty() || o.r.detail.size()) j["detail"] = o.r.detail;
    if (!o.error.empty()) j["error"] = o.error;
    return j;
}

// ------------------------------------------------------------------------- shrinking
inline bool is_graph(const Json &v) { return v.is_obj() && v.has("n") && v.has("edges"); }

inline Json graph_remove_vertex(const Json &g, int v) {
    Json r = g; int n = (int) g["n"].as_int();
    r["n"] = n - 1;
    Json es = Json::array();
    for (auto &e : g["edges"].arr()) {
        int a = (int) e[0].as_int(), b = (int) e[1].as_int();
        if (a == v || b == v) continue;
        Json t = e; t[0] = a > v ? a - 1 : a; t[1] = b > v ? b - 1 : b;
        es.push(t);
    }
    r["edges"] = es;
    return r;
}
inline Json graph_remove_edge(const Json &g, size_t k) {
    Json r = g; Json es = Json::array();
    for (size_t i = 0; i < g["edges"].size(); i++) if (i != k) es.push(g["edges"][i]);
    r["edges"] = es;
    return r;
}

inline void generic_candidates(const Json &cs, std::vector<Json> &out) {
    // 1. graphs
    for (auto &kv : cs.obj()) {
        if (!is_graph(kv.second)) continue;
        const Json &g = kv.second;
        int n = (int) g["n"].as_int();
        for (int v = n - 1; v >= 0; v--) { Json c = cs; c[kv.first] = graph_remove_vertex(g, v); out.push_back(c); }
        for (size_t k = g["edges"].size(); k-- > 0;) { Json c = cs; c[kv.first] = graph_remove_edge(g, k); out.push_back(c); }
    }
    // 2. configuration integers towards their minimum
    if (cs.has("cfg") && cs["cfg"].is_obj()) {
        for (auto &kv : cs["cfg"].obj()) {
            if (!kv.second.is_int()) continue;
            int64_t lo = cs.has("cfg_min") && cs["cfg_min"].has(kv.first) ? cs["cfg_min"][kv.first].as_int() : 0;
            int64_t v = kv.second.as_int();
            if (v > lo) { Json c = cs; c["cfg"][kv.first] = (long long) lo; out.push_back(c); }
            if (v - 1 > lo) { Json c = cs; c["cfg"][kv.first] = (long long) (v - 1); out.push_back(c); }
        }
    }
    // 3. layouts to identity
    if (cs.has("layouts") && cs["layouts"].is_arr()) {
        bool any = false;
        for (auto &l : cs["layouts"].arr()) if (l.as_int() != 0) any = true;
        if (any) {
            Json c = cs; for (auto &l : c["layouts"].arr()) l = 0; out.push_back(c);
            for (size_t k = 0; k < cs["layouts"].size(); k++)
                if (cs["layouts"][k].as_int() != 0) { Json c2 = cs; c2["layouts"][k] = 0; out.push_back(c2); }
        }
    }
    // 4. arrays of steps: ops / lines / argv
    for (const char *key : { "ops", "lines", "argv", "calls" }) {
        if (!cs.has(key) || !cs[key].is_arr()) continue;
        size_t n = cs[key].size();
        for (size_t block = n / 2; block >= 1; block /= 2) {
            for (size_t at = 0; at + block <= n; at += block) {
                Json c = cs; Json a = Json::array();
                for (size_t k = 0; k < n; k++) if (k < at || k >= at + block) a.push(cs[key][k]);
                c[key] = a; out.push_back(c);
            }
            if (block == 1) break;
        }
    }
    // 5. weights towards 1
    for (auto &kv : cs.obj()) {
        if (!is_graph(kv.second)) continue;
        const Json &g = kv.second;
        if (g.has("inexact") && g["inexact"].as_bool()) continue;
        bool any = false;
        for (auto &e : g["edges"].arr()) if (e[2].is_int() && e[2].as_int() != 1) any = true;
        if (!any && g.get_int("wexp", 0) == 0) continue;
        { Json c = cs; for (auto &e : c[kv.first]["edges"].arr()) e[2] = 1; c[kv.first]["wexp"] = 0; out.push_back(c); }
        if (g.get_int("wexp", 0) != 0) { Json c = cs; c[kv.first]["wexp"] = 0; out.push_back(c); }
        for (size_t k = 0; k < g["edges"].size(); k++) {
            int64_t w = g["edges"][k][2].as_int();
            if (w > 1) { Json c = cs; c[kv.first]["edges"][k][2] = 1; out.push_back(c); }
            if (w > 3) { Json c = cs; c[kv.first]["edges"][k][2] = (long long) (w / 2); out.push_back(c); }
        }
    }
}

inline void choice_candidates(const Json &cs, std::vector<Json> &out) {
    if (!cs.has("choices") || !cs["choices"].is_arr()) return;
    const Json &ch = cs["choices"];
    size_t n = ch.size();
    size_t last_nz = 0; bool any = false;
    for (size_t k = 0; k < n; k++) if (ch[k][2].as_int() != 0) { last_nz = k; any = true; }
    if (!any) { if (n) { Json c = cs; c["choices"] = Json::array(); out.push_back(c); } return; }
    if (last_nz + 1 < n) { Json c = cs; Json a = Json::array(); for (size_t k = 0; k <= last_nz; k++) a.push(ch[k]); c["choices"] = a; out.push_back(c); }
    { Json c = cs; for (auto &e : c["choices"].arr()) e[2] = 0; out.push_back(c); }
    for (size_t block = std::max<size_t>(1, n / 2); block >= 1; block /= 2) {
        for (size_t at = 0; at < n; at += block) {
            bool nz = false;
            for (size_t k = at; k < std::min(n, at + block); k++) if (ch[k][2].as_int() != 0) nz = true;
            if (!nz) continue;
            Json c = cs; for (size_t k = at; k < std::min(n, at + block); k++) c["choices"][k][2] = 0;
            out.push_back(c);
        }
        if (block == 1) break;
    }
}

// run one candidate in a forked child; returns classes (sanitizer deaths mapped to classes)
struct ChildResult { std::vector<std::string> classes; uint64_t event_hash = 0; Json choices; bool ok = false; };

inline std::string classify_sanitizer_log(const std::string &log, int status) {
    auto find_after = [&](const char *key) -> std::string {
        size_t p = log.find(key);
        if (p == std::string::npos) return "";
        p += strlen(key);
        size_t q = p;
        while (q < log.size() && (isalnum((unsigned char) log[q]) || log[q] == '-' || log[q] == '_')) q++;
        return log.substr(p, q - p);
    };
    std::string k = find_after("ERROR: AddressSanitizer: ");
    if (!k.empty()) return "asan:" + k;
    if (log.find("ERROR: LeakSanitizer") != std::string::npos) return "lsan:leak";
    if (log.find("WARNING: ThreadSanitizer: data race") != std::string::npos) return "tsan:race";
    k = find_after("ThreadSanitizer: ");
    if (!k.empty()) return "tsan:" + k;
    size_t p = log.find("runtime error: ");
    if (p != std::string::npos) {
        // leading words of the message up to the first token that carries a digit (addresses and values vary)
        std::string rest = log.substr(p + 15, 80), cls = "ubsan:", word; int words = 0; bool stop = false;
        for (size_t k = 0; k <= rest.size() && !stop; k++) {
            char c = k < rest.size() ? rest[k] : ' ';
            if (c == '\n') { c = ' '; stop = true; }
            if (isalnum((unsigned char) c)) { word += c; continue; }
            if (word.empty()) continue;
            bool digit = false; for (char d : word) if (isdigit((unsigned char) d)) digit = true;
            if (digit) break;
            cls += (words ? "_" : "") + word; word.clear();
            if (++words >= 6) break;
        }
        return words ? cls : cls + "error";
    }
    if (WIFSIGNALED(status)) {
        int sig = WTERMSIG(status);
        if (sig == SIGALRM) return "hang";
        return "signal:" + std::to_string(sig);
    }
    if (log.find("terminate called") != std::string::npos || log.find("Assertion") != std::string::npos) return "abort";
    return "crash:exit" + std::to_string(WIFEXITED(status) ? WEXITSTATUS(status) : -1);
}

inline std::string read_file(const std::string &path) {
    FILE *f = fopen(path.c_str(), "rb"); if (!f) return "";
    std::string s; char buf[65536]; size_t n;
    while ((n = fread(buf, 1, sizeof buf, f)) > 0) s.append(buf, n);
    fclose(f); return s;
}

inline ChildResult run_in_child(Engine &eng, const Json &cs, const std::string &tmpbase, int timeout_s = 30) {
    ChildResult cr;
    std::string outp = tmpbase + ".out", errp = tmpbase + ".err";
    fflush(stdout); fflush(stderr);
    pid_t pid = fork();
    if (pid < 0) return cr;
    if (pid == 0) {
        FILE *fo = freopen(outp.c_str(), "wb", stdout); (void) fo;
        FILE *fe = freopen(errp.c_str(), "wb", stderr); (void) fe;
        alarm((unsigned) timeout_s);
        Outcome o = execute(eng, cs);
        Json j = outcome_json(o, -1);
        j["choices"] = o.choices;
        printf("R %s\n", j.dump().c_str());
        fflush(stdout);
        _exit(o.error.empty() ? 0 : 3);
    }
    int status = 0;
    waitpid(pid, &status, 0);
    std::string out = read_file(outp), err = read_file(errp);
    unlink(outp.c_str()); unlink(errp.c_str());
    size_t p = out.rfind("R {");
    if (WIFEXITED(status) && WEXITSTATUS(status) == 0 && p != std::string::npos) {
        try {
            Json j = Json::parse(out.substr(p + 2));
            for (auto &c : j["classes"].arr()) cr.classes.push_back(c.as_str());
            cr.event_hash = strtoull(j["event_hash"].as_str().c_str(), nullptr, 16);
            cr.choices = j["choices"];
            cr.ok = true;
            return cr;
        } catch (...) {}
    }
    if (WIFEXITED(status) && WEXITSTATUS(status) == 3) { cr.classes.push_back("harness_error"); cr.ok = true; return cr; }
    cr.classes.push_back(classify_sanitizer_log(err, status));
    cr.ok = true;
    return cr;
}

inline bool has_class(const std::vector<std::string> &v, const std::string &c) {
    for (auto &x : v) if (x == c) return true;
    return false;
}

inline long graph_edges_total(const Json &cs) {
    long t = 0;
    if (cs.is_obj()) for (auto &kv : cs.obj()) if (is_graph(kv.second)) t += (long) kv.second["edges"].size();
    return t;
}

inline int minimise_main(Engine &eng, const std::string &file, const std::string &cls, const std::string &outfile, int budget) {
    Json rep = Json::parse_file(file);
    Json cs = rep.has("case") ? rep["case"] : rep;
    std::string tmpbase = outfile + ".child";
    int reruns = 0;
    // make the schedule explicit first
    ChildResult first = run_in_child(eng, cs, tmpbase); reruns++;
    if (!has_class(first.classes, cls)) {
        printf("M {\"reproduced\":false,\"classes\":%zu}\n", first.classes.size());
        return 4;
    }
    if (first.choices.is_arr()) cs["choices"] = first.choices;
    long from_edges = graph_edges_total(cs), from_choices = cs.has("choices") ? (long) cs["choices"].size() : 0;
    bool progress = true;
    // minimisation is best effort: bounded by re-runs AND by wall-clock (expensive cases: dense graphs, long schedules);
    // the clock only decides when shrinking stops, the replay file written below is self-contained either way
    const char *mw = getenv("SIM_MIN_WALL");
    const time_t t_end = time(nullptr) + (mw ? atol(mw) : 150);
    while (progress && reruns < budget && time(nullptr) < t_end) {
        progress = false;
        std::vector<Json> cands;
        eng.shrink_extra(cs, cands);
        generic_candidates(cs, cands);
        choice_candidates(cs, cands);
        for (auto &c : cands) {
            if (reruns >= budget || time(nullptr) >= t_end) break;
            if (!eng.valid(c)) continue;
            ChildResult r = run_in_child(eng, c, tmpbase); reruns++;
            if (r.ok && has_class(r.classes, cls)) {
                cs = c;
                if (r.choices.is_arr() && (!c.has("choices") || !c["choices"].is_arr())) cs["choices"] = r.choices;
                progress = true;
                break;
            }
        }
    }
    // final: record the exact trace and hash of the minimised case
    ChildResult fin = run_in_child(eng, cs, tmpbase); reruns++;
    if (fin.choices.is_arr()) cs["choices"] = fin.choices;
    Json out = rep.has("case") ? rep : Json::object();
    out["case"] = cs;
    out["class"] = cls;
    out["engine"] = eng.name();
    out["event_hash"] = hex(fin.event_hash);
    Json mi = Json::object();
    mi["reruns"] = reruns; mi["from_edges"] = (long long) from_edges; mi["to_edges"] = (long long) graph_edges_total(cs);
    mi["from_choices"] = (long long) from_choices; mi["to_choices"] = (long long) (cs.has("choices") ? cs["choices"].size() : 0);
    out["minimised"] = mi;
    out.write_file(outfile);
    printf("M {\"reproduced\":true,\"reruns\":%d,\"still\":%s}\n", reruns, has_class(fin.classes, cls) ? "true" : "false");
    return has_class(fin.classes, cls) ? 0 : 4;
}

inline void on_alarm(int) { const char m[] = "HANG: run exceeded its wall-clock watchdog\n"; ssize_t r = write(2, m, sizeof m - 1); (void) r; _exit(78); }

inline int worker_main(Engine &eng, int argc, char **argv) {
    std::map<std::string, std::string> a;
    for (int k = 1; k < argc; k++) {
        std::string s = argv[k];
        if (s.rfind("--", 0) == 0) { if (k + 1 < argc && strncmp(argv[k + 1], "--", 2)) { a[s.substr(2)] = argv[k + 1]; k++; } else a[s.substr(2)] = "1"; }
    }
    setvbuf(stdout, nullptr, _IOLBF, 0);
    if (a.count("leakcheck") || getenv("SIM_LEAKCHECK")) leakcheck_enabled() = true;
    eng.init();
    if (a.count("replay")) {
        Json rep = Json::parse_file(a["replay"]);
        Json cs = rep.has("case") ? rep["case"] : rep;
        Outcome o = execute(eng, cs);
        Json j = outcome_json(o, -1);
        printf("R %s\n", j.dump().c_str());
        return 0;
    }
    if (a.count("minimise"))
        return minimise_main(eng, a["minimise"], a["class"], a["out"], a.count("budget") ? atoi(a["budget"].c_str()) : 300);

    std::string prop = a.count("prop") ? a["prop"] : "any", tier = a.count("tier") ? a["tier"] : "quick";
    uint64_t seed = a.count("seed") ? strtoull(a["seed"].c_str(), nullptr, 10) : 1;
    long from = a.count("from") ? atol(a["from"].c_str()) : 0, to = a.count("to") ? atol(a["to"].c_str()) : 100;
    long stride = a.count("stride") ? atol(a["stride"].c_str()) : 1;
    std::string dir = a.count("dir") ? a["dir"] : ".", id = a.count("id") ? a["id"] : "0";
    double deadline = a.count("wall") ? atof(a["wall"].c_str()) : 1e18;
    long samples = a.count("samples") ? atol(a["samples"].c_str()) : 2;
    auto t0 = std::chrono::steady_clock::now();
    std::string inflight = dir + "/inflight-" + id + ".json";
    unsigned run_timeout = a.count("timeout") ? (unsigned) atoi(a["timeout"].c_str()) : 120;
    bool isolate = a.count("isolate") > 0;
    signal(SIGALRM, on_alarm);
    Json prev_case;     // leak attribution can lag one run behind: keep the previous case as a fallback
    for (long i = from; i < to; i += stride) {
        double el = std::chrono::duration<double>(std::chrono::steady_clock::now() - t0).count();
        if (el > deadline) break;
        Rng rng(mix64(mix64(seed, fnv_str(prop)), (uint64_t) i));
        Json cs = eng.generate(prop, tier, rng, (uint64_t) i);
        cs["prop"] = prop;
        cs["sched_seed"] = (long long) (mix64(seed ^ 0x5bd1e995, (uint64_t) i) >> 1);
        Json inf = Json::object(); inf["i"] = (long long) i; inf["case"] = cs; inf["seed"] = (long long) seed;
        inf.write_file(inflight);
        if (isolate) {
            // process isolation: the run executes in a forked child, so function-local statics of the library
            // (e.g. the control object kept by set_global_tbb_concurrency) start fresh for every history
            fflush(stdout); fflush(stderr);
            pid_t pid = fork();
            if (pid < 0) { fprintf(stderr, "fork failed\n"); return 3; }
            if (pid > 0) {
                int status = 0; waitpid(pid, &status, 0);
                if (WIFEXITED(status) && WEXITSTATUS(status) == 0) continue;
                // the child died: die the same way, the driver classifies from stderr and the in-flight case
                if (WIFSIGNALED(status)) { signal(WTERMSIG(status), SIG_DFL); raise(WTERMSIG(status)); }
                _exit(WIFEXITED(status) ? WEXITSTATUS(status) : 70);
            }
        }
        alarm(run_timeout);
        Outcome o = execute(eng, cs);
        alarm(0);
        Json j = outcome_json(o, i);
        if (!o.r.classes.empty() || !o.error.empty()) {
            Json rep = Json::object();
            rep["engine"] = eng.name(); rep["seed"] = (long long) seed; rep["run_index"] = (long long) i;
            Json c2 = cs; c2["choices"] = o.choices; rep["case"] = c2;
            rep["event_hash"] = hex(o.event_hash);
            Json cl = Json::array(); for (auto &c : o.r.classes) cl.push(c); rep["classes"] = cl;
            rep["detail"] = o.r.detail;
            std::string vp = dir + "/viol-" + id + "-" + std::to_string(i) + ".json";
            rep.write_file(vp);
            j["viol_file"] = vp;
            if (o.r.has("lsan:leak") && prev_case.is_obj()) {
                Json rp = Json::object(); rp["engine"] = eng.name(); rp["seed"] = (long long) seed; rp["run_index"] = (long long) (i - stride); rp["case"] = prev_case;
                std::string pp = dir + "/viol-" + id + "-" + std::to_string(i) + "-prev.json";
                rp.write_file(pp); j["viol_file_prev"] = pp;
            }
        }
        if ((samples > 0 || isolate) && o.r.nontrivial && (!isolate || i < from + 3 * stride)) { j["sample"] = cs; samples--; }
        if (leakcheck_enabled()) prev_case = cs;
        printf("R %s\n", j.dump().c_str());
        if (isolate) { fflush(stdout); fflush(stderr); _exit(0); }
    }
    unlink(inflight.c_str());
    printf("D {\"done\":true}\n");
    fflush(stdout); fflush(stderr);
    if (leakcheck_enabled()) _exit(0);      // leaks were attributed run by run; skip the exit-time report
    return 0;
}

} // namespace sim
