// The baton scheduler (DESIGN §2.2): simulator threads are real pthreads of which exactly one
// runs at any time.  Which runnable thread advances at a scheduling point is a Chooser
// decision, so one seed is one exactly repeatable interleaving.
//
// TSan build: the baton is handed over with relaxed atomics and raw futex system calls only,
// neither of which creates a happens-before edge for ThreadSanitizer, and the scheduler's own
// bookkeeping runs inside AnnotateIgnore{Reads,Writes}.  The *logical* fork/join edges are
// added by hand (spawn token, done token).  TSan therefore sees exactly the happens-before
// relation the simulated runtime guarantees and reports conflicting accesses of logically
// concurrent tasks although they were executed one after the other under a seed.
#pragma once
#include <linux/futex.h>
#include <pthread.h>
#include <sys/syscall.h>
#include <unistd.h>
#include <atomic>
#include <climits>
#include <set>
#include <string>
#include <vector>
#include "arena.hpp"
#include "chooser.hpp"

namespace sim {

// one simulated operating-system process (an MPI rank, or the single process of a TBB run)
struct ProcCtx;
inline std::set<ProcCtx*>& live_procs() { static std::set<ProcCtx*> *s = new std::set<ProcCtx*>(); return *s; }
struct ProcCtx {
    // a simulated process lives for one run; objects of the library that outlive it (function-local
    // statics such as the global_control kept by set_global_tbb_concurrency) must not touch a later one
    ProcCtx() { IgnoreGuard ig; static uint64_t counter = 0; uid = ++counter; live_procs().insert(this); }
    uint64_t uid = 0;                           // a later process may reuse this object's address: compare uids
    ~ProcCtx() { IgnoreGuard ig; live_procs().erase(this); }
    ProcCtx(const ProcCtx&) = delete;
    ProcCtx& operator=(const ProcCtx&) = delete;
    int rank = 0, nprocs = 1;
    Arena *arena = nullptr;
    std::string out, err;                       // captured std::cout / std::cerr
    std::multiset<size_t> gc_parallelism;       // live global_control(max_allowed_parallelism) values
    size_t coll_index = 0;                      // collectives entered so far
    int active_strands = 0;                     // TBB strands currently doing work in this process
    int max_active_strands = 0;
    bool finished = false;
};

extern thread_local ProcCtx *tl_proc;

struct SimAbort {};   // unwinds a simulator thread when the run is aborted (deadlock / step budget)

struct SimThread {
    int id = 0;
    pthread_t th;
    std::atomic<int> word { 0 };
    enum State { IDLE, RUNNABLE, BLOCKED, FINISHED } state = IDLE;
    void (*fn)(void*) = nullptr;
    void *arg = nullptr;
    bool (*cond)(void*) = nullptr;
    void *cond_arg = nullptr;
    ProcCtx *proc = nullptr;
    Arena *arena = nullptr;
    int layout_depth = 0;
    char spawn_token = 0, done_token = 0;
    bool threw = false;
    int joining = -1;                       // id of the thread this one is joining, if any
};

class Sched {
public:
    static Sched& get() { static Sched *s = new Sched(); return *s; }   // never destroyed: pool threads outlive main

    // the calling (main) thread becomes simulator thread 0 of a new run
    void begin_run(Chooser *c, uint64_t budget) {
        IgnoreGuard ig;
        ch = c; step_budget = budget; aborting = false; abort_reason.clear();
        if (threads.empty()) { SimThread *m = new SimThread(); m->id = 0; threads.push_back(m); }
        for (auto *t : threads) if (t->state == SimThread::FINISHED) t->state = SimThread::IDLE;
        threads[0]->state = SimThread::RUNNABLE;
        cur = 0; switches = 0; spawned = 0;
    }
    void end_run() { IgnoreGuard ig; for (auto *t : threads) if (t->id && t->state == SimThread::FINISHED) t->state = SimThread::IDLE; ch = nullptr; }
    bool active() const { return ch != nullptr; }
    Chooser* chooser() { return ch; }
    int current() const { return cur; }
    bool is_aborting() const { return aborting; }

    // new runnable simulator thread; inherits the caller's process context unless proc given
    int spawn(void (*fn)(void*), void *arg, ProcCtx *proc = nullptr) {
        SimThread *t;
        {
            IgnoreGuard ig;
            t = nullptr;
            for (auto *x : threads) if (x->id && x->state == SimThread::IDLE) { t = x; break; }
            if (!t) {
                t = new SimThread(); t->id = (int) threads.size(); threads.push_back(t);
                pthread_attr_t at; pthread_attr_init(&at); pthread_attr_setstacksize(&at, 4 << 20);
                if (pthread_create(&t->th, &at, &Sched::pool_main, t)) abort();
                pthread_attr_destroy(&at);
            }
            t->fn = fn; t->arg = arg; t->proc = proc ? proc : tl_proc;
            t->arena = proc ? proc->arena : tl_arena; t->layout_depth = proc ? 0 : tl_layout_depth;
            t->state = SimThread::RUNNABLE; t->threw = false;
            spawned++;
        }
        SIM_TSAN_RELEASE(&t->spawn_token);
        return t->id;
    }

    // scheduling point: the current thread stays runnable
    void yield(int tag = T_NEXT) {
        if (!ch) return;
        int next;
        {
            IgnoreGuard ig;
            check_budget();
            if (aborting) next = -2; else next = pick(tag, true);
        }
        if (next == -2) throw SimAbort();
        switch_to(next);
        bool ab; { IgnoreGuard ig; ab = aborting; }
        if (ab) throw SimAbort();
    }

    // the current thread cannot proceed (it spins on a lock another simulator thread holds): let another
    // runnable thread advance; false = nobody else can run (deadlock) or the run is being aborted
    bool yield_other() {
        if (!ch) return false;
        int next;
        {
            IgnoreGuard ig;
            check_budget();
            if (aborting) return false;
            int cand[256]; int n = 0;
            for (auto *t : threads) {
                if (t->id == cur || n >= 256) continue;
                if (t->state == SimThread::RUNNABLE) cand[n++] = t->id;
                else if (t->state == SimThread::BLOCKED && t->cond(t->cond_arg)) cand[n++] = t->id;
            }
            if (n == 0) { start_abort("deadlock"); return false; }
            next = cand[ch->choose((uint32_t) n, T_NEXT)];
        }
        switch_to(next);
        bool ab; { IgnoreGuard ig; ab = aborting; }
        return !ab;
    }
    bool on_sim_thread() const { return ch != nullptr; }

    // block until cond(arg) holds; false = the run is being aborted
    bool wait_until(bool (*cond)(void*), void *arg) {
        if (!ch) return cond(arg);
        while (true) {
            int next;
            {
                IgnoreGuard ig;
                if (cond(arg)) return true;
                if (aborting) return false;
                SimThread *me = threads[cur];
                me->state = SimThread::BLOCKED; me->cond = cond; me->cond_arg = arg;
                check_budget();
                next = pick(T_NEXT, false);
                if (next < 0) { start_abort("deadlock"); me->state = SimThread::RUNNABLE; return false; }
                if (next == cur) { me->state = SimThread::RUNNABLE; continue; }
            }
            switch_to(next);
            IgnoreGuard ig;
            threads[cur]->state = SimThread::RUNNABLE;
        }
    }

    bool is_finished(int id) { IgnoreGuard ig; return threads[id]->state == SimThread::FINISHED; }
    // wait for a spawned thread to finish (always completes: aborted threads unwind and finish)
    // recycle: the finished thread returns to the pool at once, so a later spawn of the same run reuses the OS thread (and its
    // thread_local storage) and the simulator thread id - a worker that executes one task after another
    void join(int id, bool recycle = false) {
        JoinArg a { this, id };
        { IgnoreGuard ig; threads[cur]->joining = id; }
        while (!wait_until(&Sched::join_cond, &a)) {   // aborted: let the others unwind, never leave early
            bool done; { IgnoreGuard ig; done = join_cond(&a); }
            if (done) break;
            drain_one();
        }
        SimThread *t; { IgnoreGuard ig; threads[cur]->joining = -1; t = threads[id]; }
        SIM_TSAN_ACQUIRE(&t->done_token);
        if (recycle) { IgnoreGuard ig; if (t->id && t->state == SimThread::FINISHED && !aborting) t->state = SimThread::IDLE; }
    }
    bool thread_threw(int id) { IgnoreGuard ig; return threads[id]->threw; }

    void request_abort(const std::string &why) { IgnoreGuard ig; start_abort(why); }

    std::string abort_reason;
    uint64_t switches = 0, spawned = 0;

private:
    struct JoinArg { Sched *s; int id; };
    static bool join_cond(void *p) { JoinArg *a = (JoinArg*) p; return a->s->threads[a->id]->state == SimThread::FINISHED; }

    std::vector<SimThread*> threads;
    Chooser *ch = nullptr;
    uint64_t step_budget = 0;
    int cur = 0;
    bool aborting = false;

    void check_budget() { if (!aborting && step_budget && ch->steps > step_budget) start_abort("budget"); }
    void start_abort(const std::string &why) { if (!aborting) { aborting = true; abort_reason = why; } }

    // while aborting: let some other unfinished thread unwind
    bool drainable(SimThread *t) {
        if (t->state != SimThread::RUNNABLE && t->state != SimThread::BLOCKED) return false;
        return t->joining < 0 || threads[t->joining]->state == SimThread::FINISHED;
    }
    void drain_one() {
        int next = -1;
        { IgnoreGuard ig; for (auto *t : threads) if (t->id != cur && drainable(t)) { next = t->id; break; } }
        if (next >= 0) switch_to(next);
    }

    // candidates: current thread first (value 0 = keep running), then the others by id
    int pick(int tag, bool self_runnable) {
        int cand[256]; int n = 0;
        if (aborting) {
            for (auto *t : threads) if (t->id != cur && drainable(t)) return t->id;
            return self_runnable ? cur : -1;
        }
        if (self_runnable) cand[n++] = cur;
        for (auto *t : threads) {
            if (t->id == cur || n >= 256) continue;
            if (t->state == SimThread::RUNNABLE) cand[n++] = t->id;
            else if (t->state == SimThread::BLOCKED && t->cond(t->cond_arg)) cand[n++] = t->id;
        }
        if (n == 0) return -1;
        uint32_t v = ch->choose((uint32_t) n, tag, self_runnable ? 300 : -1);
        return cand[v];
    }

    static void futex_wait(std::atomic<int> *w) { syscall(SYS_futex, (int*) w, FUTEX_WAIT_PRIVATE, 0, nullptr, nullptr, 0); }
    static void futex_wake(std::atomic<int> *w) { syscall(SYS_futex, (int*) w, FUTEX_WAKE_PRIVATE, 1, nullptr, nullptr, 0); }
    static void park(SimThread *t) {
        while (t->word.load(SIM_MO_LOAD) == 0) futex_wait(&t->word);
        t->word.store(0, std::memory_order_relaxed);
        asm volatile("" ::: "memory");
    }
    static void wake(SimThread *t) {
        asm volatile("" ::: "memory");
        t->word.store(1, SIM_MO_STORE);
        futex_wake(&t->word);
    }
    void switch_to(int next) {
        SimThread *me, *nx;
        { IgnoreGuard ig; if (next == cur) return; me = threads[cur]; nx = threads[next]; cur = next; switches++; }
        wake(nx);
        park(me);
    }

    static void* pool_main(void *p) {
        SimThread *t = (SimThread*) p;
        Sched &s = Sched::get();
        for (;;) {
            park(t);
            void (*fn)(void*); void *arg;
            { IgnoreGuard ig; fn = t->fn; arg = t->arg; tl_proc = t->proc; tl_arena = t->arena; tl_layout_depth = t->layout_depth; }
            SIM_TSAN_ACQUIRE(&t->spawn_token);
            bool threw = false;
            try { fn(arg); } catch (const SimAbort&) { threw = true; } catch (...) { threw = true; }
            SIM_TSAN_RELEASE(&t->done_token);
            int next;
            {
                IgnoreGuard ig;
                t->threw = threw;
                t->state = SimThread::FINISHED;
                tl_proc = nullptr; tl_arena = nullptr; tl_layout_depth = 0;
                next = s.pick(T_NEXT, false);
                if (next < 0 && !s.aborting) { s.start_abort("deadlock"); next = s.pick(T_NEXT, false); }
                if (next < 0) next = 0;   // nobody else can move: main is draining
                SimThread *nx = s.threads[next];
                s.cur = next; s.switches++;
                wake(nx);
            }
        }
        return nullptr;
    }
};

#ifdef SIM_SCHED_DEFINE
thread_local ProcCtx *tl_proc = nullptr;
thread_local int tl_in_mutex_wrap = 0;
#else
extern thread_local int tl_in_mutex_wrap;
#endif

} // namespace sim

#ifdef SIM_SCHED_DEFINE
// std::mutex / pthread mutexes used by library code inside tasks (link with -Wl,--wrap=pthread_mutex_lock):
// acquiring a mutex is a scheduling point, and a mutex held by a parked simulator thread is waited for
// cooperatively - a real blocking lock would stall the whole single-baton simulation.
extern "C" int __real_pthread_mutex_lock(pthread_mutex_t *m);
extern "C" int __wrap_pthread_mutex_lock(pthread_mutex_t *m) {
    sim::Sched &s = sim::Sched::get();
    if (!s.on_sim_thread() || sim::tl_in_mutex_wrap) return __real_pthread_mutex_lock(m);
    sim::tl_in_mutex_wrap++;
    struct Leave { ~Leave() { sim::tl_in_mutex_wrap--; } } leave;
    s.yield();
    while (pthread_mutex_trylock(m) != 0) {
        if (!s.yield_other()) throw sim::SimAbort();
    }
    return 0;
}
#endif

