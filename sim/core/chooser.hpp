// One integer decides everything: PRNG, the choice stream (record / replay) and the
// event log whose hash is the determinism fingerprint of a run.
#pragma once
#include <cstdint>
#include <string>
#include <vector>
#include "json.hpp"

namespace sim {

inline uint64_t splitmix64(uint64_t &x) {
    uint64_t z = (x += 0x9e3779b97f4a7c15ULL);
    z = (z ^ (z >> 30)) * 0xbf58476d1ce4e5b9ULL;
    z = (z ^ (z >> 27)) * 0x94d049bb133111ebULL;
    return z ^ (z >> 31);
}

inline uint64_t mix64(uint64_t a, uint64_t b) {
    uint64_t x = a * 0x9e3779b97f4a7c15ULL + b + 0x632be59bd9b4e019ULL;
    return splitmix64(x);
}

// xoshiro256**
class Rng {
public:
    explicit Rng(uint64_t seed = 1) { reseed(seed); }
    void reseed(uint64_t seed) { uint64_t x = seed; for (auto &v : s) v = splitmix64(x); }
    uint64_t next() {
        const uint64_t result = rotl(s[1] * 5, 7) * 9, t = s[1] << 17;
        s[2] ^= s[0]; s[3] ^= s[1]; s[1] ^= s[2]; s[0] ^= s[3]; s[2] ^= t; s[3] = rotl(s[3], 45);
        return result;
    }
    // uniform in [0, n)
    uint64_t below(uint64_t n) { return n <= 1 ? 0 : next() % n; }
    // uniform in [lo, hi]
    int64_t range(int64_t lo, int64_t hi) { return lo + (int64_t) below((uint64_t) (hi - lo + 1)); }
    bool chance(unsigned per_mille) { return below(1000) < per_mille; }
    double unit() { return (next() >> 11) * (1.0 / 9007199254740992.0); }
    template<class T> void shuffle(std::vector<T> &v) {
        for (size_t i = v.size(); i > 1; i--) std::swap(v[i - 1], v[below(i)]);
    }
    template<class T> const T& pick(const std::vector<T> &v) { return v[below(v.size())]; }
private:
    uint64_t s[4];
    static uint64_t rotl(uint64_t x, int k) { return (x << k) | (x >> (64 - k)); }
};

// Tags of schedule / environment choices.  Value 0 is always the "plain" alternative.
enum Tag : int {
    T_SPLIT = 1,      // bisect this range node further?
    T_STEAL = 2,      // is the boundary between two consecutive leaves a steal?
    T_PLACE = 3,      // which virtual worker gets a task
    T_NEXT = 4,       // which runnable simulator thread advances
    T_PICK = 5,       // which of a worker's queued tasks runs next
    T_JOINSHAPE = 6,  // join tree: bisection tree / arbitrary bracketing
    T_EAGER = 7,      // collective returns eagerly / synchronises
    T_REDUCE = 8,     // reduce combination order
    T_CHUNK = 9,      // stream chunk size
    T_FINAL = 10,     // finalize synchronises?
    T_WORKERS = 11,   // effective worker count of a region
    T_MISC = 12
};

struct Choice { int tag; uint32_t n; uint32_t v; };

struct EventLog {
    uint64_t h = 1469598103934665603ULL;
    uint64_t count = 0;
    void add(uint64_t x) {
        for (int k = 0; k < 8; k++) { h ^= (x >> (8 * k)) & 0xff; h *= 1099511628211ULL; }
        count++;
    }
    void add_str(const std::string &s) { for (unsigned char c : s) { h ^= c; h *= 1099511628211ULL; } count++; }
};

class Chooser {
public:
    Chooser() : rng(1), replay(false), pos(0), steps(0) {}
    void start_record(uint64_t seed) { trace.reserve(8192); rng.reseed(seed); replay = false; trace.clear(); out.clear(); pos = 0; steps = 0; log = EventLog(); }
    void start_replay(const std::vector<Choice> &t) { out.reserve(8192); replay = true; trace = t; pos = 0; steps = 0; out.clear(); log = EventLog(); }

    // choose a value in [0, n); in record mode value 0 has probability (1000-bias)/1000 when
    // bias_nonzero_per_mille is given, otherwise uniform.
    uint32_t choose(uint32_t n, int tag, int bias_nonzero_per_mille = -1) {
        steps++;
        uint32_t v = 0;
        if (n <= 1) return 0;   // forced, not recorded
        if (replay) {
            if (pos < trace.size()) { v = trace[pos].v; if (v >= n) v = 0; }
            pos++;
            out.push_back(Choice { tag, n, v });
        } else {
            if (bias_nonzero_per_mille >= 0) {
                if (rng.chance((unsigned) bias_nonzero_per_mille)) v = 1 + (uint32_t) rng.below(n - 1);
            } else v = (uint32_t) rng.below(n);
            trace.push_back(Choice { tag, n, v });
        }
        log.add(((uint64_t) tag << 48) ^ ((uint64_t) n << 24) ^ v);
        return v;
    }
    bool flip(int tag, int per_mille) { return choose(2, tag, per_mille) == 1; }

    const std::vector<Choice>& recorded() const { return replay ? out : trace; }
    Json trace_json() const {
        Json a = Json::array();
        for (auto &c : recorded()) { Json e = Json::array(); e.push(c.tag); e.push((long) c.n); e.push((long) c.v); a.push(e); }
        return a;
    }
    static std::vector<Choice> trace_from_json(const Json &a) {
        std::vector<Choice> t;
        for (auto &e : a.arr()) t.push_back(Choice { (int) e[0].as_int(), (uint32_t) e[1].as_int(), (uint32_t) e[2].as_int() });
        return t;
    }

    EventLog log;
    uint64_t steps;
    Rng rng;
private:
    bool replay;
    std::vector<Choice> trace, out;
    size_t pos;
};

} // namespace sim
