#!/bin/bash
# tools/keep.sh <worktree> <seed id> <PROPERTY> "<needs>" "<demo cmd>" [extra check props...]
# copies a confirmed seeded change into /verif/seeded/<id>/ (patch.diff, demonstration, meta.json)
wt=$1; id=$2; prop=$3; needs=$4; cmd=$5; shift 5
d=/verif/seeded/$id; mkdir -p $d
git -C /tmp/wt/$wt diff -- include src > $d/patch.diff
for f in /tmp/wt/$wt/_seed/*; do case "$f" in *patch.diff|*/demo|*/demo_fake|*/demo_real|*.o) ;; *) cp -r "$f" $d/ 2>/dev/null;; esac; done
python3 - "$d" "$id" "$prop" "$needs" "$cmd" "$@" <<'PY'
import json,sys
d,id_,prop,needs,cmd=sys.argv[1:6]; extra=sys.argv[6:]
json.dump({"id":id_,"property":prop,"check_properties":[prop]+extra,"breaks":prop,"needs_to_manifest":needs,
 "origin":"independent sub-agent given only the property text and a scratch worktree",
 "confirmed":{"test_suite_with_change":"7/7 executables (20 cases) pass","demo_with_change":"exit != 0","demo_without_change":"exit 0","demo_command":cmd,"how":"tools/confirm.sh in the agent's worktree: cmake --build, ctest, demo with change, git checkout, demo without, git apply"}},
 open(d+"/meta.json","w"),indent=1)
PY
echo kept $id
