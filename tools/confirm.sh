#!/bin/bash
# tools/confirm.sh <worktree> "<demo build+run command, run inside the worktree>"
# My own confirmation of a sub-agent's claims: 1. the repo's test-suite passes with the change,
# 2. the demonstration fails with the change, 3. it passes without it.  (No git stash: shared.)
wt=$1; cmd=$2
cd /tmp/wt/$wt || exit 9
git diff --quiet -- include src && { echo "NO CHANGE APPLIED"; exit 9; }
git diff -- include src > /tmp/wt/confirm_$wt.patch
cmake --build _build > /tmp/wt/confirm_$wt.log 2>&1 || { echo "BUILD FAILS WITH CHANGE"; exit 1; }
ctest --test-dir _build -j8 --timeout 600 >> /tmp/wt/confirm_$wt.log 2>&1 && echo "tests: pass with change ($(grep -c 'Passed' /tmp/wt/confirm_$wt.log) executables)" || { echo "TESTS FAIL WITH CHANGE"; exit 1; }
( eval "$cmd" ) > /tmp/wt/confirm_${wt}_with.log 2>&1; rc1=$?
echo "demo with change: exit=$rc1"
git checkout -q -- include src
( eval "$cmd" ) > /tmp/wt/confirm_${wt}_without.log 2>&1; rc2=$?
echo "demo without change: exit=$rc2"
git apply /tmp/wt/confirm_$wt.patch
git diff --quiet -- include src && echo "WARNING: change lost"
[ $rc1 -ne 0 ] && [ $rc2 -eq 0 ] && echo "CONFIRMED" || echo "NOT CONFIRMED"
