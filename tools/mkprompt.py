#!/usr/bin/env python3
# tools/mkprompt.py <worktree name> <PROPERTY> "<focus>"  -> prompt for an independent sub-agent that is
# asked to break the property in its own scratch worktree (/tmp/wt/<name>).  The agent gets the text of
# the property only - nothing from /verif.
import json, sys
wt, prop, focus = sys.argv[1], sys.argv[2], sys.argv[3]
p = [json.loads(l) for l in open('/verif/properties.jsonl') if json.loads(l)['id'] == prop][0]
text = "Property %s: %s\n\nStatement: %s\n\nQuantifier (%s): %s\n\nObserved at: %s\n" % (p['id'], p['title'], p['statement'], ", ".join(p['quantifier']['over']), p['quantifier']['text'], "; ".join(p['anchors'].get('observe_at') or []))
print(f"""You are helping to evaluate a verification effort by playing the role of a developer who introduces a subtle regression.

Work ONLY inside the git worktree /tmp/wt/{wt} (a checkout of the C++14 header-only library d-michail/parmcb: minimum cycle bases of weighted undirected graphs, with sequential, TBB and MPI variants, plus demo programs in src/). Do not touch /repo or /verif, do not read anything under /verif. Do not commit anything.

The property you must break (read it carefully):

---
{text}---

Your task: design ONE realistic source change to the library (files under /tmp/wt/{wt}/include or /tmp/wt/{wt}/src) that BREAKS this property, while
  (1) the project still compiles, and
  (2) the project's existing test suite still passes completely: build and run it with
        cd /tmp/wt/{wt} && cmake -G Ninja -B _build >/dev/null && cmake --build _build && ctest --test-dir _build -j8
      (all 7 test executables / 20 test cases must pass WITH your change applied; verify this yourself).

Focus for this task: {focus}

The change must look like a plausible refactoring, "optimisation" or small slip a developer could make. It must need something specific to manifest (a particular interleaving or schedule, a fault or unusual event at a particular point, a multi-step sequence of operations, an unusual input, or two cooperating sites that each look fine alone) and must NOT be exposed at once by ordinary use: the existing tests must keep passing.

Ignore the pieces guarded by `#ifdef PARMCB_VERIF` / PARMCB_VERIF_PROBE macros in the headers: they are inert instrumentation, leave them alone.

Deliverables, all written into the directory /tmp/wt/{wt}/_seed/ (create it):
  - patch.diff : output of `git -C /tmp/wt/{wt} diff` (only include/ and src/ changes; not _seed, not _build)
  - a demonstration: a small self-contained C++ program (demo.cpp; or a shell script for command-line programs) plus the exact command line to build and run it (in README.md), which FAILS (non-zero exit status) with your change and PASSES (exit 0) without it. Build with g++ or clang++ -std=c++14, include paths /tmp/wt/{wt}/include and /tmp/wt/{wt}/_build/include (generated parmcb/config.hpp), link -ltbb -lboost_timer (and -lboost_mpi -lboost_serialization via mpic++ / `mpiexec --allow-run-as-root --oversubscribe -n P` if MPI is involved) as needed. If the failure depends on scheduling that real TBB/MPI does not let you control, the demonstration may drive the relevant library code directly with a hand-chosen partition/order, or supply a tiny fake runtime header placed earlier on the include path, or repeat runs until the failure shows; explain what it does.
  - README.md : what the change is, why it breaks the property, what exactly is needed for it to manifest, and how you verified (test-suite summary with the change, demo result with and without the change).

Verify everything yourself: test suite passes with the change; demo fails with the change; demo passes with the change reverted (IMPORTANT: do NOT use `git stash` - the stash is shared between worktrees and other people work in sibling worktrees; instead save `git diff -- include src > /tmp/wt/{wt}.patch`, run `git checkout -- include src`, and later `git apply /tmp/wt/{wt}.patch`); then make sure the change is applied again so that the worktree contains it at the end. Report back a short summary: the idea of the change, files touched, what is needed to trigger it, and whether all verifications succeeded.""")
